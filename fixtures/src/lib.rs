//! Positive (and negative) controls for the rule engines of /verif/analysis.
//! Every function named `bad_*` contains exactly one seeded instance of a rule violation and MUST be
//! reported by the corresponding engine on every run; every `good_*` twin MUST stay silent.
#![allow(dead_code, clippy::all)]

use parking_lot::{Mutex, RwLock};

pub struct PA(pub u32);
pub struct PB(pub u32);

/// Lock ordering: fa → fb.
pub struct Fix {
    pub fa: RwLock<PA>,
    pub fb: RwLock<PB>,
    pub m: Mutex<u8>,
    pub map: std::collections::BTreeMap<u32, u32>,
    pub refs: usize,
    pub len: usize,
}

#[derive(Debug)]
pub enum E {
    Still,
    Short,
    Other,
}

// ---------------------------------------------------------------- engine A: locks
impl Fix {
    /// documented order: fa then fb
    pub fn good_order(&self) -> u32 {
        let a = self.fa.read();
        let b = self.fb.write();
        a.0 + b.0
    }

    /// inverts it: fb held while requesting fa -> cycle with good_order
    pub fn bad_order(&self) -> u32 {
        let b = self.fb.read();
        let a = self.fa.write();
        a.0 + b.0
    }

    pub fn fold_holding_a(&self, mut f: impl FnMut(u32)) {
        let a = self.fa.read();
        f(a.0);
    }

    /// recursive read of fa through a callback while fold_holding_a holds fa (fa has a writer site)
    pub fn bad_recursive_read(&self) -> u32 {
        let mut s = 0;
        self.fold_holding_a(|x| {
            let again = self.fa.read();
            s += x + again.0;
        });
        s
    }

    pub fn good_callback(&self) -> u32 {
        let mut s = 0;
        self.fold_holding_a(|x| {
            s += x;
        });
        s
    }
}

// ---------------------------------------------------------------- engine B: order
pub fn data_sync() {}
pub fn meta_sync() {}
pub fn mark(_: usize) {}
pub fn raw_write(_: usize) {}
pub fn claim() {}
pub fn release() {}
pub fn use_space() {}

pub fn good_sync_order(dirty: bool) {
    if dirty {
        data_sync();
    } else {
        data_sync();
    }
    meta_sync();
}

/// metadata synced before data on one path
pub fn bad_sync_order(dirty: bool) {
    if dirty {
        data_sync();
    }
    meta_sync();
}

pub fn good_followed(n: usize) -> Result<(), E> {
    raw_write(n);
    if n > 10 {
        return Err(E::Other);
    }
    mark(n);
    Ok(())
}

/// a write that reaches Ok without being recorded
pub fn bad_followed(n: usize) -> Result<(), E> {
    raw_write(n);
    if n > 10 {
        return Ok(());
    }
    mark(n);
    Ok(())
}

pub fn good_claim(grow: bool) {
    release();
    if grow {
        claim();
        use_space();
    }
}

/// space used after the lock was released without a claim
pub fn bad_claim(grow: bool) {
    release();
    if grow {
        claim();
    }
    use_space();
}

pub fn only_from_here() {
    mark(0);
}

pub fn intruder() {
    mark(1);
}

// ---------------------------------------------------------------- engine C: atomicity
impl Fix {
    pub fn good_remove(&mut self, k: u32) -> Result<(), E> {
        if self.refs > 2 {
            return Err(E::Still);
        }
        self.map.remove(&k);
        Ok(())
    }

    /// refuses after having mutated
    pub fn bad_remove(&mut self, k: u32) -> Result<(), E> {
        self.map.remove(&k);
        if self.refs > 2 {
            return Err(E::Still);
        }
        Ok(())
    }

    fn inner_fallible(&mut self, k: u32) -> Result<(), E> {
        if k == 0 {
            return Err(E::Short);
        }
        self.len = k as usize;
        Ok(())
    }

    pub fn good_question_mark(&mut self, k: u32) -> Result<(), E> {
        self.inner_fallible(k)?;
        self.map.insert(k, k);
        Ok(())
    }

    /// `?` after a mutation: the callee's refusal leaves a half-applied state
    pub fn bad_question_mark(&mut self, k: u32) -> Result<(), E> {
        self.map.insert(k, k);
        self.inner_fallible(k)?;
        Ok(())
    }
}

// ---------------------------------------------------------------- engine D: decoders
pub fn good_decode(bytes: &[u8]) -> Result<u32, E> {
    if bytes.len() < 8 {
        return Err(E::Short);
    }
    let a = u32::from_le_bytes(bytes[0..4].try_into().unwrap());
    let n = bytes[4] as usize;
    if n > 3 {
        return Err(E::Short);
    }
    Ok(a.wrapping_add(bytes[4 + n] as u32))
}

/// indexes and allocates from unchecked input
pub fn bad_decode(bytes: &[u8]) -> Result<Vec<u8>, E> {
    let n = u32::from_le_bytes(bytes[0..4].try_into().unwrap()) as usize;
    let mut v = Vec::with_capacity(n);
    v.extend_from_slice(&bytes[4..4 + n]);
    Ok(v)
}
