//! Type-level witnesses (DESIGN.md §3.W): code outside rawdb cannot mutate allocator state or region
//! metadata, nor forge a Reader.  Each `compile_fail` doc-test names the exact error code and has a
//! compiling twin that differs only in the offending line — a witness whose path is merely wrong would
//! also "fail to compile".  Run with `cargo +nightly test --doc` (stable ignores the error code).

/// W1 twin: reading the layout through the public accessor compiles.
/// ```no_run
/// let d = tempfile::tempdir().unwrap();
/// let db = rawdb::Database::open(d.path()).unwrap();
/// let n = db.layout().start_to_hole().len();
/// let _ = n;
/// ```
/// W1: the layout write accessor is not callable from outside the crate.
/// ```compile_fail,E0624
/// let d = tempfile::tempdir().unwrap();
/// let db = rawdb::Database::open(d.path()).unwrap();
/// let n = db.layout_mut().start_to_hole().len();
/// let _ = n;
/// ```
pub struct W1LayoutMut;

/// W2 twin
/// ```no_run
/// let d = tempfile::tempdir().unwrap();
/// let db = rawdb::Database::open(d.path()).unwrap();
/// let n = db.regions().len();
/// let _ = n;
/// ```
/// W2: the region-table write accessor is private.
/// ```compile_fail,E0624
/// let d = tempfile::tempdir().unwrap();
/// let db = rawdb::Database::open(d.path()).unwrap();
/// let n = db.regions_mut().len();
/// let _ = n;
/// ```
pub struct W2RegionsMut;

/// W3 twin
/// ```no_run
/// let d = tempfile::tempdir().unwrap();
/// let db = rawdb::Database::open(d.path()).unwrap();
/// let r = db.create_region_if_needed("a").unwrap();
/// let n = r.meta().len();
/// let _ = n;
/// ```
/// W3: a region's metadata write guard is private.
/// ```compile_fail,E0624
/// let d = tempfile::tempdir().unwrap();
/// let db = rawdb::Database::open(d.path()).unwrap();
/// let r = db.create_region_if_needed("a").unwrap();
/// let n = r.meta_mut().len();
/// let _ = n;
/// ```
pub struct W3MetaMut;

/// W4 twin
/// ```no_run
/// let d = tempfile::tempdir().unwrap();
/// let db = rawdb::Database::open(d.path()).unwrap();
/// let n = db.layout().start_to_region().len();
/// let _ = n;
/// ```
/// W4: the layout's maps (here the pending holes) are private fields.
/// ```compile_fail,E0616
/// let d = tempfile::tempdir().unwrap();
/// let db = rawdb::Database::open(d.path()).unwrap();
/// let n = db.layout().pending_holes.len();
/// let _ = n;
/// ```
pub struct W4LayoutFields;

/// W5 twin
/// ```no_run
/// let d = tempfile::tempdir().unwrap();
/// let db = rawdb::Database::open(d.path()).unwrap();
/// let r = db.create_region_if_needed("a").unwrap();
/// let n = r.meta().reserved();
/// let _ = n;
/// ```
/// W5: metadata cannot be mutated through the public read guard.
/// ```compile_fail,E0596
/// let d = tempfile::tempdir().unwrap();
/// let db = rawdb::Database::open(d.path()).unwrap();
/// let r = db.create_region_if_needed("a").unwrap();
/// let n = r.meta().set_len(0);
/// let _ = n;
/// ```
pub struct W5MetaReadOnly;

/// W6 twin
/// ```no_run
/// let d = tempfile::tempdir().unwrap();
/// let db = rawdb::Database::open(d.path()).unwrap();
/// let r = db.create_region_if_needed("a").unwrap();
/// let reader: rawdb::Reader = r.create_reader();
/// let _ = reader.len();
/// ```
/// W6: a Reader cannot be forged (its snapshot fields are private); create_reader is the only source.
/// ```compile_fail,E0616
/// let d = tempfile::tempdir().unwrap();
/// let db = rawdb::Database::open(d.path()).unwrap();
/// let r = db.create_region_if_needed("a").unwrap();
/// let reader: rawdb::Reader = r.create_reader();
/// let _ = reader.start;
/// ```
pub struct W6ReaderFields;
