#!/usr/bin/env python3
"""run_seeded.py [--jobs N] [id-substring ...]
Applies every /verif/seeded/<id>/patch.diff to a scratch worktree of /repo HEAD (removed at once),
runs the check of the property it breaks and records the outcome in seeded/<id>/detect.json."""
import concurrent.futures
import glob
import hashlib
import json
import os
import re
import shutil
import subprocess
import sys
import tempfile

VERIF = os.path.dirname(os.path.dirname(os.path.abspath(__file__)))


def one(d):
    meta = json.load(open(os.path.join(d, "meta.json")))
    prop = meta["property"]
    wt = tempfile.mkdtemp(prefix="seeded-")
    try:
        subprocess.check_call(["git", "-C", "/repo", "worktree", "add", "-f", "--detach", wt, "HEAD"],
                              stdout=subprocess.DEVNULL, stderr=subprocess.DEVNULL)
        r = subprocess.run(["git", "-C", wt, "apply", "--whitespace=nowarn", os.path.join(d, "patch.diff")],
                           capture_output=True, text=True)
        if r.returncode != 0:
            return d, {"applies": False, "detected": False, "error": r.stderr[-300:]}
        r = subprocess.run([os.path.join(VERIF, "check"), prop, "--repo", wt], capture_output=True, text=True, timeout=2400)
        keys = re.findall(r"^  key:  (.*)$", r.stdout, re.M)
        rules = re.findall(r"^  rule: (.*)$", r.stdout, re.M)
        res = {"applies": True, "check": "./check %s" % prop, "exit": r.returncode, "detected": r.returncode == 1,
               "violation_keys": keys, "rules": rules}
        if r.returncode not in (0, 1):
            res["error"] = r.stdout[-400:]
        return d, res
    finally:
        subprocess.call(["git", "-C", "/repo", "worktree", "remove", "--force", wt], stdout=subprocess.DEVNULL,
                        stderr=subprocess.DEVNULL)
        shutil.rmtree(wt, ignore_errors=True)
        tag = hashlib.sha256(wt.encode()).hexdigest()[:8]
        for c in glob.glob(os.path.join(VERIF, ".cache", "*-" + tag)):
            shutil.rmtree(c, ignore_errors=True)


def main():
    args = sys.argv[1:]
    jobs = 4
    if "--jobs" in args:
        i = args.index("--jobs")
        jobs = int(args[i + 1])
        del args[i:i + 2]
    dirs = sorted(d for d in glob.glob(os.path.join(VERIF, "seeded", "*")) if os.path.isdir(d))
    if args:
        dirs = [d for d in dirs if any(a in os.path.basename(d) for a in args)]
    miss = 0
    with concurrent.futures.ThreadPoolExecutor(jobs) as ex:
        for d, res in ex.map(one, dirs):
            json.dump(res, open(os.path.join(d, "detect.json"), "w"), indent=1)
            print("%-10s %s %s" % (os.path.basename(d), "DETECTED" if res["detected"] else "MISSED  ",
                                   "; ".join(k[:110] for k in res.get("violation_keys", []))[:230] or res.get("error", "")))
            miss += 0 if res["detected"] else 1
    print("%d seeded changes, %d missed" % (len(dirs), miss))


if __name__ == "__main__":
    main()
