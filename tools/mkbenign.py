#!/usr/bin/env python3
"""mkbenign.py <name> <file> <<< 'OLD\n=====\nNEW'  (may be repeated by chaining: creates/extends benign/<name>.patch)
Behaviour-preserving refactorings used as negative controls: every check must stay silent on them."""
import os
import subprocess
import sys
import tempfile

name = sys.argv[1]
edits = []
spec = sys.stdin.read()
for chunk in spec.split("\n#####\n"):
    path, rest = chunk.split("\n", 1)
    old, new = rest.split("\n=====\n")
    edits.append((path.strip(), old.rstrip("\n") + "\n", new.rstrip("\n") + "\n"))
wt = tempfile.mkdtemp(prefix="mkben-")
try:
    subprocess.check_call(["git", "-C", "/repo", "worktree", "add", "-f", "--detach", wt, "HEAD"],
                          stdout=subprocess.DEVNULL, stderr=subprocess.DEVNULL)
    for path, old, new in edits:
        fp = os.path.join(wt, path)
        s = open(fp).read()
        if s.count(old) != 1:
            sys.exit("OLD text occurs %d times in %s" % (s.count(old), path))
        open(fp, "w").write(s.replace(old, new))
    r = subprocess.run(["cargo", "check", "--offline", "-p", "rawdb", "-p", "vecdb", "--features", "vecdb/pco,vecdb/derive"],
                       cwd=wt, capture_output=True, text=True, env=dict(os.environ, CARGO_NET_OFFLINE="true"))
    if r.returncode != 0:
        sys.exit("does not compile:\n" + r.stderr[-1500:])
    diff = subprocess.check_output(["git", "-C", wt, "diff"], text=True)
    open("/verif/benign/%s.patch" % name, "w").write(diff)
    print("wrote benign/%s.patch" % name)
finally:
    subprocess.call(["git", "-C", "/repo", "worktree", "remove", "--force", wt], stdout=subprocess.DEVNULL)
