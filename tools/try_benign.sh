#!/bin/bash
# try_benign.sh <dir-with-bN.diff>: run all claimed checks against each candidate benign diff
for d in "$1"/b*.diff; do
  echo "== $d"
  python3 /verif/tools/check_patch.py "$d" C05 C09 C10 C11 C12 C13 C14 C16 C17 C18 C19 C20 2>&1 | grep -v "exit=0" | head -20
done
