#!/usr/bin/env python3
"""run_benign.py [name-substring ...]: applies each behaviour-preserving patch of /verif/benign to a scratch worktree
and runs ALL claimed checks on it; every check must exit 0 (KNOWN-FINDING lines allowed)."""
import glob
import hashlib
import json
import os
import re
import shutil
import subprocess
import sys
import tempfile

VERIF = os.path.dirname(os.path.dirname(os.path.abspath(__file__)))
props = [c["property_id"] for c in json.load(open(os.path.join(VERIF, "MANIFEST.json")))["checks"]]
patches = sorted(glob.glob(os.path.join(VERIF, "benign", "*.patch")))
args = sys.argv[1:]
if "--prop" in args:
    i = args.index("--prop")
    props = [args[i + 1]]
    del args[i:i + 2]
if args:
    patches = [p for p in patches if any(a in p for a in args)]
bad = 0
for patch in patches:
    wt = tempfile.mkdtemp(prefix="benign-")
    try:
        subprocess.check_call(["git", "-C", "/repo", "worktree", "add", "-f", "--detach", wt, "HEAD"],
                              stdout=subprocess.DEVNULL, stderr=subprocess.DEVNULL)
        subprocess.check_call(["git", "-C", wt, "apply", "--whitespace=nowarn", patch])
        res = []
        for p in props:
            r = subprocess.run([os.path.join(VERIF, "check"), p, "--repo", wt], capture_output=True, text=True, timeout=2400)
            if r.returncode != 0:
                keys = re.findall(r"^  key:  (.*)$", r.stdout, re.M)
                res.append("%s exit=%d %s" % (p, r.returncode, "; ".join(keys)[:200] or r.stdout[-200:]))
        print("%-34s %s" % (os.path.basename(patch), "SILENT" if not res else "ALARM: " + " | ".join(res)))
        bad += 1 if res else 0
    finally:
        subprocess.call(["git", "-C", "/repo", "worktree", "remove", "--force", wt], stdout=subprocess.DEVNULL,
                        stderr=subprocess.DEVNULL)
        shutil.rmtree(wt, ignore_errors=True)
        tag = hashlib.sha256(wt.encode()).hexdigest()[:8]
        for c in glob.glob(os.path.join(VERIF, ".cache", "*-" + tag)):
            shutil.rmtree(c, ignore_errors=True)
print("%d benign refactorings, %d raised an alarm or broke a check" % (len(patches), bad))
sys.exit(1 if bad else 0)
