#!/usr/bin/env python3
"""run_benign.py [name-substring ...]: applies each behaviour-preserving patch of /verif/benign to a scratch worktree
and runs ALL claimed checks on it; every check must exit 0 (KNOWN-FINDING lines allowed)."""
import glob
import hashlib
import json
import os
import re
import shutil
import subprocess
import sys
import tempfile

VERIF = os.path.dirname(os.path.dirname(os.path.abspath(__file__)))
props = [c["property_id"] for c in json.load(open(os.path.join(VERIF, "MANIFEST.json")))["checks"]]
patches = sorted(glob.glob(os.path.join(VERIF, "benign", "*.patch")))
args = sys.argv[1:]
if "--dir" in args:       # candidates not (yet) in the corpus: every *.diff of a directory
    _i = args.index("--dir")
    patches = sorted(glob.glob(os.path.join(args[_i + 1], "*.diff")))
    del args[_i:_i + 2]
if "--jobs" in args:
    _i = args.index("--jobs")
    del args[_i:_i + 2]
if "--prop" in args:
    i = args.index("--prop")
    props = [args[i + 1]]
    del args[i:i + 2]
if args:
    patches = [p for p in patches if any(a in p for a in args)]
import concurrent.futures

jobs = 4
if "--jobs" in sys.argv:
    jobs = int(sys.argv[sys.argv.index("--jobs") + 1])


def one(patch):
    wt = tempfile.mkdtemp(prefix="benign-")
    try:
        subprocess.check_call(["git", "-C", "/repo", "worktree", "add", "-f", "--detach", wt, "HEAD"],
                              stdout=subprocess.DEVNULL, stderr=subprocess.DEVNULL)
        subprocess.check_call(["git", "-C", wt, "apply", "--whitespace=nowarn", patch])
        res = []
        for p in props:
            try:
                r = subprocess.run([os.path.join(VERIF, "check"), p, "--repo", wt], capture_output=True, text=True,
                                   timeout=2400)
            except subprocess.TimeoutExpired:
                res.append("%s TIMEOUT" % p)
                continue
            if r.returncode != 0:
                keys = re.findall(r"^  key:  (.*)$", r.stdout, re.M)
                res.append("%s exit=%d %s" % (p, r.returncode, "; ".join(keys)[:200] or r.stdout[-200:]))
        return patch, res
    finally:
        subprocess.call(["git", "-C", "/repo", "worktree", "remove", "--force", wt], stdout=subprocess.DEVNULL,
                        stderr=subprocess.DEVNULL)
        shutil.rmtree(wt, ignore_errors=True)


bad = 0
with concurrent.futures.ThreadPoolExecutor(jobs) as ex:
    for patch, res in ex.map(one, patches):
        print("%-34s %s" % (os.path.basename(os.path.dirname(patch))[:14] + "/" + os.path.basename(patch) if patch.endswith(".diff")
                            else os.path.basename(patch), "SILENT" if not res else "ALARM: " + " | ".join(res)), flush=True)
        bad += 1 if res else 0
print("%d benign refactorings, %d raised an alarm or broke a check" % (len(patches), bad))
sys.exit(1 if bad else 0)
