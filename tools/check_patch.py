#!/usr/bin/env python3
"""check_patch.py <patch.diff> <PROP> [<PROP> ...]
Applies the patch to a scratch worktree of /repo HEAD (removed afterwards) and runs the given
property checks against it.  Prints, per property, the exit status and the violation keys."""
import glob
import hashlib
import os
import re
import shutil
import subprocess
import sys
import tempfile

VERIF = os.path.dirname(os.path.dirname(os.path.abspath(__file__)))
patch = os.path.abspath(sys.argv[1])
props = sys.argv[2:]
wt = tempfile.mkdtemp(prefix="chkpatch-")
try:
    subprocess.check_call(["git", "-C", "/repo", "worktree", "add", "-f", "--detach", wt, "HEAD"],
                          stdout=subprocess.DEVNULL, stderr=subprocess.DEVNULL)
    r = subprocess.run(["git", "-C", wt, "apply", "--whitespace=nowarn", patch], capture_output=True, text=True)
    if r.returncode != 0:
        sys.exit("patch does not apply: " + r.stderr)
    for p in props:
        r = subprocess.run([os.path.join(VERIF, "check"), p, "--repo", wt], capture_output=True, text=True, timeout=2400)
        keys = re.findall(r"^  key:  (.*)$", r.stdout, re.M)
        rules = re.findall(r"^  rule: (.*)$", r.stdout, re.M)
        print("%s exit=%d %s" % (p, r.returncode, "" if r.returncode in (0, 1) else r.stdout[-400:]))
        for k, ru in zip(keys, rules):
            print("    VIOLATION key=%s\n      rule=%s" % (k, ru))
finally:
    subprocess.call(["git", "-C", "/repo", "worktree", "remove", "--force", wt], stdout=subprocess.DEVNULL,
                    stderr=subprocess.DEVNULL)
    shutil.rmtree(wt, ignore_errors=True)
    tag = hashlib.sha256(wt.encode()).hexdigest()[:8]
    for d in glob.glob(os.path.join(VERIF, ".cache", "*-" + tag)):
        shutil.rmtree(d, ignore_errors=True)
