#!/usr/bin/env python3
"""mkmutant.py <name> <expect-prop> <expect-key-substring> <file> <<< 'OLD\n=====\nNEW'
Creates /verif/mutants/<name>.patch against /repo HEAD by replacing OLD with NEW (exactly once)
in <file> inside a scratch worktree; nothing in /repo is touched."""
import os
import subprocess
import sys
import tempfile

name, prop, key, path = sys.argv[1:5]
spec = sys.stdin.read()
old, new = spec.split("\n=====\n")
new = new.rstrip("\n") + "\n" if new.strip() else ""
old = old.rstrip("\n") + "\n"
wt = tempfile.mkdtemp(prefix="mkmut-")
try:
    subprocess.check_call(["git", "-C", "/repo", "worktree", "add", "-f", "--detach", wt, "HEAD"],
                          stdout=subprocess.DEVNULL, stderr=subprocess.DEVNULL)
    fp = os.path.join(wt, path)
    s = open(fp).read()
    if s.count(old) != 1:
        sys.exit("OLD text occurs %d times in %s" % (s.count(old), path))
    open(fp, "w").write(s.replace(old, new))
    diff = subprocess.check_output(["git", "-C", wt, "diff"], text=True)
    out = "/verif/mutants/%s.patch" % name
    with open(out, "w") as fh:
        fh.write("# expect: %s %s\n" % (prop, key))
        fh.write(diff)
    print("wrote", out)
finally:
    subprocess.call(["git", "-C", "/repo", "worktree", "remove", "--force", wt], stdout=subprocess.DEVNULL)
