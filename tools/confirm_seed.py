#!/usr/bin/env python3
"""confirm_seed.py <PROP> <A|B>
Confirms a sub-agent's seeded change in its scratch worktree /tmp/seed-<PROP> (never in /repo):
 1. demo passes on the unchanged tree, 2. demo fails with the change, 3. the full existing suite
 still passes with the change.  Writes /tmp/seed-<PROP>-out/<X>.confirm.json."""
import json
import os
import re
import shutil
import subprocess
import sys
import time

prop, X = sys.argv[1], sys.argv[2]
prefix = os.environ.get("SEED_PREFIX", "seed")
wt = "/tmp/%s-%s" % (prefix, prop)
out = "/tmp/%s-%s-out" % (prefix, prop)
md = open(os.path.join(out, X + ".md")).read()
m = re.search(r"crates/([a-z_]+)/tests/([A-Za-z0-9_]+)\.rs", md)
crate, tname = m.group(1), m.group(2)
env = dict(os.environ, CARGO_NET_OFFLINE="true")


def sh(cmd, timeout):
    t0 = time.time()
    try:
        p = subprocess.run(cmd, cwd=wt, env=env, capture_output=True, text=True, timeout=timeout)
        return p.returncode, (p.stdout + p.stderr), time.time() - t0
    except subprocess.TimeoutExpired as e:
        return 124, "TIMEOUT " + str(e)[-500:], time.time() - t0


def clean():
    subprocess.run(["git", "checkout", "--", "."], cwd=wt)
    subprocess.run(["git", "clean", "-fdq", "-e", "target"], cwd=wt)


clean()
demo_src = os.path.join(out, X + "_demo.rs")
demo_dst = os.path.join(wt, "crates", crate, "tests", tname + ".rs")
demo_cmd = ["cargo", "test", "-p", crate, "--offline", "--test", tname]
if crate == "vecdb":
    mf = re.search(r"--features[ =]([a-z0-9_,]+)", md)
    feats = set((mf.group(1) if mf else "pco").split(",")) | {"pco"}
    demo_cmd += ["--features", ",".join(sorted(feats))]
demo_cmd += ["--", "--nocapture", "--test-threads=1"]
res = {"property": prop, "change": X, "demo_test": "crates/%s/tests/%s.rs" % (crate, tname), "demo_cmd": " ".join(demo_cmd)}
shutil.copy(demo_src, demo_dst)
rc, o, dt = sh(demo_cmd, 900)
res["demo_unchanged"] = {"exit": rc, "s": round(dt), "tail": o[-600:]}
r = subprocess.run(["git", "apply", "--whitespace=nowarn", os.path.join(out, X + ".diff")], cwd=wt, capture_output=True, text=True)
res["applies"] = r.returncode == 0
rc, o, dt = sh(demo_cmd, 900)
res["demo_changed"] = {"exit": rc, "s": round(dt), "tail": o[-900:]}
os.remove(demo_dst)
suite = ["cargo", "test", "--workspace", "--no-fail-fast", "--offline"]
for attempt in (1, 2):
    rc, o, dt = sh(suite, 2400)
    full = o
    failed = re.findall(r"^test (\S+) \.\.\. FAILED", full, re.M)
    res["suite_changed"] = {"exit": rc, "s": round(dt), "attempt": attempt, "failed_tests": failed, "tail": o[-400:]}
    flaky = {"test_length_data_consistency_stress"}
    if rc != 0 and failed and set(failed) <= flaky:
        # known load-dependent flake of the unchanged tree (reported independently by several sub-agents)
        res["suite_changed"]["only_known_flaky_failed"] = True
        rc = 0
        res["suite_changed"]["exit"] = 0
    if rc == 0:
        break
clean()
res["confirmed"] = bool(res["applies"] and res["demo_unchanged"]["exit"] == 0 and res["demo_changed"]["exit"] != 0
                        and res["suite_changed"]["exit"] == 0)
json.dump(res, open(os.path.join(out, X + ".confirm.json"), "w"), indent=1)
print(prop, X, "confirmed" if res["confirmed"] else "NOT CONFIRMED", res["demo_unchanged"]["exit"],
      res["demo_changed"]["exit"], res["suite_changed"]["exit"])
