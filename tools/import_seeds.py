#!/usr/bin/env python3
"""Collects confirmed sub-agent changes from /tmp/seed-<P>-out into /verif/seeded/<P>-<X>/."""
import json
import os
import re
import shutil
import sys

VERIF = os.path.dirname(os.path.dirname(os.path.abspath(__file__)))
for d in sorted(os.listdir("/tmp")):
    m = re.fullmatch(r"seed\d*-(C\d+)-out", d)
    if not m:
        continue
    prop = m.group(1)
    for X in ("A", "B", "C", "D", "E", "F", "G", "H", "I"):
        cf = os.path.join("/tmp", d, X + ".confirm.json")
        if not os.path.exists(cf):
            continue
        c = json.load(open(cf))
        if not c.get("confirmed"):
            print("skip (not confirmed)", prop, X)
            continue
        dst = os.path.join(VERIF, "seeded", "%s-%s" % (prop, X))
        if os.path.exists(os.path.join(dst, "meta.json")):
            continue
        os.makedirs(dst, exist_ok=True)
        shutil.copy(os.path.join("/tmp", d, X + ".diff"), os.path.join(dst, "patch.diff"))
        shutil.copy(os.path.join("/tmp", d, X + "_demo.rs"), os.path.join(dst, "demo.rs"))
        shutil.copy(os.path.join("/tmp", d, X + ".md"), os.path.join(dst, "README.md"))
        md = open(os.path.join("/tmp", d, X + ".md")).read()
        meta = {
            "property": prop,
            "origin": "independent sub-agent given only the property text and a scratch worktree of /repo HEAD",
            "demo_test_path": c["demo_test"],
            "demo_cmd": c["demo_cmd"],
            "what_i_ran": [
                "copied demo.rs to %s in the scratch worktree; ran the demo on the unchanged tree: exit %d" % (
                    c["demo_test"], c["demo_unchanged"]["exit"]),
                "git apply patch.diff; ran the demo again: exit %d (fails)" % c["demo_changed"]["exit"],
                "removed the demo; cargo test --workspace --no-fail-fast --offline with the change: exit %d, failed tests %s"
                % (c["suite_changed"]["exit"], c["suite_changed"]["failed_tests"]),
            ],
            "confirmed": True,
            "needs_to_manifest": "see README.md (sub-agent's description: schedule / crash point / history / input)",
        }
        json.dump(meta, open(os.path.join(dst, "meta.json"), "w"), indent=1)
        print("imported", prop, X)
