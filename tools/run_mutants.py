#!/usr/bin/env python3
"""run_mutants.py [--jobs N] [--build] [name-substring ...]
Applies each /verif/mutants/*.patch to a scratch worktree of /repo HEAD (outside /repo and /verif,
removed immediately), re-extracts facts and runs the expected property's check on it; the check must
exit 1 with a VIOLATION whose key contains the expected substring.  With --build the mutant is also
compiled with the stable toolchain (cargo check) to show it still builds."""
import concurrent.futures
import glob
import os
import re
import shutil
import subprocess
import sys
import tempfile

VERIF = os.path.dirname(os.path.dirname(os.path.abspath(__file__)))


def run_one(patch, build=False):
    head = open(patch).readline()
    m = re.match(r"# expect: (\S+) (.*)$", head.strip())
    prop, key = m.group(1), m.group(2)
    wt = tempfile.mkdtemp(prefix="mut-")
    try:
        subprocess.check_call(["git", "-C", "/repo", "worktree", "add", "-f", "--detach", wt, "HEAD"],
                              stdout=subprocess.DEVNULL, stderr=subprocess.DEVNULL)
        r = subprocess.run(["git", "-C", wt, "apply", "--whitespace=nowarn", patch], capture_output=True, text=True)
        if r.returncode != 0:
            return patch, "PATCH-FAILED", r.stderr[-300:]
        if build:
            tgt = tempfile.mkdtemp(prefix="mut-tgt-")
            b = subprocess.run(["cargo", "check", "--offline", "-p", "rawdb", "-p", "vecdb", "--features",
                                "vecdb/pco,vecdb/derive"], cwd=wt, capture_output=True, text=True,
                               env=dict(os.environ, CARGO_TARGET_DIR=tgt, CARGO_NET_OFFLINE="true"))
            shutil.rmtree(tgt, ignore_errors=True)
            if b.returncode != 0:
                return patch, "DOES-NOT-COMPILE", b.stderr[-400:]
        r = subprocess.run([os.path.join(VERIF, "check"), prop, "--repo", wt], capture_output=True, text=True,
                           env=dict(os.environ, VERIF_NO_EVIDENCE="1"))
        out = r.stdout
        keys = re.findall(r"^  key:  (.*)$", out, re.M)
        if r.returncode == 1 and any(key in k for k in keys):
            return patch, "DETECTED", "; ".join(keys)[:300]
        if r.returncode == 1:
            return patch, "DETECTED-OTHER-KEY", "; ".join(keys)[:300]
        if r.returncode == 2:
            return patch, "CHECKER-ERROR", out[-400:] + r.stderr[-300:]
        return patch, "MISSED", out[-300:]
    finally:
        subprocess.call(["git", "-C", "/repo", "worktree", "remove", "--force", wt], stdout=subprocess.DEVNULL,
                        stderr=subprocess.DEVNULL)
        shutil.rmtree(wt, ignore_errors=True)
        # drop the facts cache entry of this scratch path
        import hashlib
        tag = hashlib.sha256(wt.encode()).hexdigest()[:8]
        for d in glob.glob(os.path.join(VERIF, ".cache", "*-" + tag)):
            shutil.rmtree(d, ignore_errors=True)


def main():
    args = sys.argv[1:]
    jobs = 4
    build = False
    if "--jobs" in args:
        i = args.index("--jobs")
        jobs = int(args[i + 1])
        del args[i:i + 2]
    if "--build" in args:
        build = True
        args.remove("--build")
    patches = sorted(glob.glob(os.path.join(VERIF, "mutants", "*.patch")))
    if args:
        patches = [p for p in patches if any(a in os.path.basename(p) for a in args)]
    bad = 0
    with concurrent.futures.ThreadPoolExecutor(jobs) as ex:
        for patch, status, info in ex.map(lambda p: run_one(p, build), patches):
            print("%-22s %s  %s" % (status, os.path.basename(patch), info if status != "DETECTED" else ""))
            if status != "DETECTED":
                bad += 1
    print("%d mutants, %d not detected as expected" % (len(patches), bad))
    sys.exit(1 if bad else 0)


if __name__ == "__main__":
    main()
