#!/usr/bin/env python3
"""Regenerates /verif/MANIFEST.json from the tables below (claimed checks / not applicable)."""
import json
import os

VERIF = os.path.dirname(os.path.dirname(os.path.abspath(__file__)))

NOTE = ("Trusted base: rustc nightly's MIR for the current working tree as exported by /verif/driver; call "
        "resolution (Instance::try_resolve + class-hierarchy analysis); the rule tables in /verif/rules. Decides the "
        "structural clauses named in DESIGN.md only, not value-level behaviour. Linux cfg only.")

CLAIMED = {
    "C05": ("must-precede / who-may-call / must-follow dataflow over MIR CFG + call graph",
            "Ordering clauses of crash safety: data sync before metadata sync wherever dirty regions are committed, "
            "metadata sync before freed extents become reusable on every path of flush, who may promote/insert holes, "
            "pending holes count as occupied for every placement decision, dirty tracking after every mmap write, flush "
            "before punch, whole-slot metadata writes, open never fails on slot contents, no slot write before the file growth it "
            "depends on. Decided over all CFG paths of the named functions; not the "
            "recovered bytes.", "DESIGN.md §4 C05"),
    "C09": ("publication-order rules (must-precede, held-lock, critical-section, atomic-ordering operands) over MIR",
            "Publication order of the writer (data, region length, page index, shared length; index and length in one "
            "pages-write critical section; Release/Acquire), load-length-before-snapshot on every read-only path, page bytes "
            "decoded only while the page table is pinned, pointer reads only while a Reader is live, data before placement "
            "on relocation, no lock-order cycle that could park a reader, a cached snapshot filed under the length that "
            "bounded it. "
            "Not prefix equality of values.", "DESIGN.md §4 C09"),
    "C10": ("lock-discipline rules (same-guard snapshots, typestate claim-before-release, held/not-held at call sites) "
            "over MIR",
            "Structural clauses of isolation: single-guard placement snapshots, reservation pairing and claiming under "
            "the deciding layout guard, layout lock not held across file growth, remap under mmap+file write locks, a "
            "Reader pins its region, reuse gated against readers, in-place growth consults reservations/holes/pending holes, a "
            "relocation target leaves the hole map before it is reserved, offset-caching sources pin the placement, id check "
            "and insert under one regions write guard, the two hole indexes written together, the amount taken from the hole "
            "map equals the amount claimed (symbolic operand comparison). Not per-thread content equality.", "DESIGN.md §4 C10"),
    "C11": ("whole-program lock-order analysis (held-lock dataflow on MIR, interprocedural summaries, cycle rule)",
            "Absence of feasible lock-order cycles and blocking same-class nestings under writer-preferring RwLocks, "
            "over every acquisition site, body and callback context of rawdb and vecdb; class-level over-approximation.",
            "DESIGN.md §3.A, §4 C11"),
    "C12": ("ordering / held-lock / who-may-call / constant-operand rules over MIR",
            "compact flushes before punching; punch ranges derive only from a region's metadata tail or promoted holes; "
            "tail punch under that region's metadata write lock with a single-guard snapshot; every punch under layout "
            "and file read locks; KEEP_SIZE; nobody but the growth functions changes a file length; writers hold the metadata "
            "lock while copying; the hole map is rebuilt in start order at open; hole amount conserved; hole indexes "
            "written together; Layout::len takes the last extent of every map. Not the page-rounding "
            "arithmetic.", "DESIGN.md §4 C12"),
    "C13": ("refusal-atomicity dataflow (mutation provenance + error-variant flow, `?`-branch sensitive, "
            "interprocedural summaries)",
            "For each refusing entry point and its refusal variants: no path reaches an error exit carrying such a "
            "variant after an observable mutation; auxiliary regions are opened only after the header verification; no "
            "rollback-state snapshot after a failed rollback.", "DESIGN.md §3.C, §4 C13"),
    "C14": ("def-use / switch-arm / who-produces rules over MIR of the import entry points",
            "Version-path agreement between import and forced import, discard arms exactly the four mismatch variants "
            "and only produced by header decoding, auxiliary regions removed on reset, siblings agree, plain import is "
            "refusal-atomic, a fresh header is written only into an empty region, plain import never reaches the forced path, "
            "the data region is removed before auxiliary regions, auxiliary regions opened after verification, version "
            "refusals selected by equality tests, header setters write their own field. "
            "Not that matching data is returned intact.", "DESIGN.md §3.F, §4 C14"),
    "C16": ("refusal-atomicity dataflow + dominance / data-dependence rules + decoder panic-site discharge",
            "Refusal clauses of rollback: failed rollback leaves the vector unchanged, stamp-mismatch test guards every "
            "step of rollback_before, abandoned-future records removed before the new record and not counted in the "
            "retention arithmetic, pruning in numeric stamp order, every Ok return of rollback_before re-bases the rollback "
            "state and none does after a failure, every slot index of a raw record is validated before any is applied, reset "
            "drops the change records on every path, raw and compressed re-base on the same helper, "
            "change-record parsing cannot panic or over-allocate. Not the count min(k, commits).",
            "DESIGN.md §4 C16"),
    "C17": ("abstract interpretation of `a <= b` facts over MIR discharging every panic / allocation site of the decoders",
            "Decoders never panic, overflow or allocate beyond the input on arbitrary bytes; validity checks present; "
            "bad metadata slots skipped without shifting their neighbours' indices; writer/reader limits agree; raw undo "
            "validates every index; the restore position of truncated values is computed, not decoded; raw pointer copies "
            "out of a slice stay inside it. Not round-trip equality.", "DESIGN.md §3.D, §4 C17"),
    "C18": ("must-precede / constant-operand / data-flow / who-may-call rules over MIR of the open path",
            "Advisory lock taken before any resize/sync/map/read, truncate(false), locked files flow into the long-lived "
            "structs, nobody else opens for writing or unlocks, last drop joins background tasks which hold no counted "
            "handle, the locked descriptor is never duplicated, nothing on the refusal path (incl. drop glue) touches the "
            "files, the data file is the last of the two locked files to be closed, the last-handle test counts strong "
            "handles only. OS lock semantics trusted.", "DESIGN.md §4 C18"),
    "C19": ("backward data-dependence (version coverage) + dominance / ordering rules over MIR",
            "Every compute_* method presents a version that depends on every ReadableVec source and cannot return Ok "
            "without validating; validator/truncate/loop order; reset only skippable when empty; header persisted on "
            "every write exit; only the validator updates the computed version; EagerVec reports its computed version to "
            "dependants; the header is persisted whole; own-version changes are refused by an equality test at import. "
            "Not the resume index value.",
            "DESIGN.md §3.G, §4 C19"),
    "C20": ("bound-class inventory of unchecked read sites (dominating guards + backward slices), publication-site "
            "classification, guard-carrying type rules",
            "No read of mapped/file bytes is bounded only by stored+pushed or by nothing; every publication of the shared "
            "length is of a class that keeps it within what is on disk; sources caching absolute offsets pin the "
            "placement; page entries published after the region covers them and sized from the bytes written; source "
            "constructors clamp; pointer reads only under a live Reader; a Reader pins its region; no direct truncate of a "
            "compressed data region; the rollback overlay is complete before it becomes the baseline; raw pointer copies out "
            "of a slice stay inside it. Not the arithmetic exactness of offsets.",
            "DESIGN.md §3.E, §4 C20"),
}

NA = {
    "C01": "value-level model equivalence of region bytes over all histories; no sound static argument in reach bounds write offsets/lengths (placement arithmetic in write_with is value-level)",
    "C02": "data-structure invariant (partition of the file into extents/holes) over integer arithmetic of five BTreeMaps; an inductive value-level proof, not a shape of the code",
    "C03": "differential/model equality of vector contents over histories and value sequences for five formats: value-level",
    "C04": "content equality after rollback chains: value-level; the structural refusal clauses of rollback are claimed under C16",
    "C06": "numerical equality of ~60 incremental resume algorithms with a from-scratch run as a function of batch boundaries: value-level (the version half is C19)",
    "C07": "bit-exact round trip through pco/lz4/zstd and arithmetic invariants of the page table over all chunkings: value-level",
    "C08": "agreement of 6-8 clamping implementations is arithmetic on (from,to,len,stored_len); panic-freedom of read paths needs value ranges: no finite structural surrogate",
    "C15": "value-level equality of lazily computed results with their defining formula, including merge bookkeeping of sorted reads",
}


def main():
    checks = []
    for pid in sorted(CLAIMED):
        tech, text, ref = CLAIMED[pid]
        checks.append({
            "property_id": pid,
            "quick_cmd": "./check %s" % pid,
            "thorough_cmd": "./check %s --tier thorough" % pid,
            "evidence_file": "evidence/%s.json" % pid,
            "replay_cmd_template": "./check %s --explain {path}" % pid,
            "engine": "static-mir",
            "level_claimed": {"category": "other", "text": text, "design_ref": ref},
            "level_note": NOTE,
            "technique": "static analysis: " + tech,
        })
    all_ids = ["C%02d" % i for i in range(1, 21)]
    na = []
    for pid in all_ids:
        if pid in CLAIMED:
            continue
        reason = NA.get(pid, "check under construction in this session (engine E, DESIGN.md §3.E); not claimed until built")
        na.append({"property_id": pid, "reason": reason})
    m = {
        "version": 1,
        "setup_cmd": "cd driver && CARGO_NET_OFFLINE=true cargo build --offline",
        "hooks": {
            "guard": "anydb_rs_anydb_verif",
            "enable": "none: static analysis reads the MIR of the unmodified build (cargo +nightly check with the "
                      "driver as RUSTC_WORKSPACE_WRAPPER); no guarded code exists in /repo",
            "baseline_off_cmd": "cd /repo && cargo test --workspace --no-fail-fast --offline",
            "source_commits": [],
            "add_only": True,
        },
        "engines": [
            {"name": "static-mir", "path": "check", "serves_properties": sorted(CLAIMED),
             "kind_free_text": "rustc_private driver exporting type-checked MIR facts (driver/) + Python rule engines "
                               "(analysis/: lock-order, ordering/dominance, atomicity, decoder, bounds, import, "
                               "version-coverage) over rule tables (rules/)"},
        ],
        "checks": checks,
        "notes": "Static analysis only: no repository code is executed by any check. Repairs of genuine defects are "
                 "'fix:' commits in /repo, listed in known_findings.txt together with the recorded findings.",
        "not_applicable": na,
    }
    with open(os.path.join(VERIF, "MANIFEST.json"), "w") as fh:
        json.dump(m, fh, indent=1)
    print("MANIFEST.json: %d checks, %d not applicable" % (len(checks), len(na)))


if __name__ == "__main__":
    main()
