#!/usr/bin/env python3
"""Regenerates /verif/MANIFEST.json from the tables below (claimed checks / not applicable)."""
import json
import os

VERIF = os.path.dirname(os.path.dirname(os.path.abspath(__file__)))

NOTE = ("Trusted base: rustc nightly's MIR for the current working tree as exported by /verif/driver; call "
        "resolution (Instance::try_resolve + class-hierarchy analysis); the rule tables in /verif/rules. Decides the "
        "structural clauses named in DESIGN.md only, not value-level behaviour. Linux cfg only.")

CLAIMED = {
    "C05": ("must-precede / who-may-call / must-follow dataflow over MIR CFG + call graph",
            "Ordering clauses of crash safety: data sync before metadata sync wherever dirty regions are committed, "
            "metadata sync before freed extents become reusable on every path of flush, who may promote/insert holes, "
            "dirty tracking after every mmap write, flush before punch, whole-slot metadata writes. Decided over all "
            "CFG paths of the named functions; not the recovered bytes.", "DESIGN.md §4 C05"),
    "C11": ("whole-program lock-order analysis (held-lock dataflow on MIR, interprocedural summaries, cycle rule)",
            "Absence of feasible lock-order cycles and blocking same-class nestings under writer-preferring RwLocks, "
            "over every acquisition site, body and callback context of rawdb and vecdb; class-level over-approximation.",
            "DESIGN.md §3.A, §4 C11"),
}

NA = {
    "C01": "value-level model equivalence of region bytes over all histories; no sound static argument in reach bounds write offsets/lengths (placement arithmetic in write_with is value-level)",
    "C02": "data-structure invariant (partition of the file into extents/holes) over integer arithmetic of five BTreeMaps; an inductive value-level proof, not a shape of the code",
    "C03": "differential/model equality of vector contents over histories and value sequences for five formats: value-level",
    "C04": "content equality after rollback chains: value-level; the structural refusal clauses of rollback are claimed under C16",
    "C06": "numerical equality of ~60 incremental resume algorithms with a from-scratch run as a function of batch boundaries: value-level (the version half is C19)",
    "C07": "bit-exact round trip through pco/lz4/zstd and arithmetic invariants of the page table over all chunkings: value-level",
    "C08": "agreement of 6-8 clamping implementations is arithmetic on (from,to,len,stored_len); panic-freedom of read paths needs value ranges: no finite structural surrogate",
    "C15": "value-level equality of lazily computed results with their defining formula, including merge bookkeeping of sorted reads",
}


def main():
    checks = []
    for pid in sorted(CLAIMED):
        tech, text, ref = CLAIMED[pid]
        checks.append({
            "property_id": pid,
            "quick_cmd": "./check %s" % pid,
            "thorough_cmd": "./check %s --tier thorough" % pid,
            "evidence_file": "evidence/%s.json" % pid,
            "replay_cmd_template": "./check %s --explain {path}" % pid,
            "engine": "static-mir",
            "level_claimed": {"category": "other", "text": text, "design_ref": ref},
            "level_note": NOTE,
            "technique": "static analysis: " + tech,
        })
    all_ids = ["C%02d" % i for i in range(1, 21)]
    na = []
    for pid in all_ids:
        if pid in CLAIMED:
            continue
        reason = NA.get(pid, "check not built yet (planned: see DESIGN.md §4)")
        na.append({"property_id": pid, "reason": reason})
    m = {
        "version": 1,
        "setup_cmd": "cd driver && CARGO_NET_OFFLINE=true cargo build --offline",
        "hooks": {
            "guard": "anydb_rs_anydb_verif",
            "enable": "none: static analysis reads the MIR of the unmodified build (cargo +nightly check with the "
                      "driver as RUSTC_WORKSPACE_WRAPPER); no guarded code exists in /repo",
            "baseline_off_cmd": "cd /repo && cargo test --workspace --no-fail-fast --offline",
            "source_commits": [],
            "add_only": True,
        },
        "engines": [
            {"name": "static-mir", "path": "check", "serves_properties": sorted(CLAIMED),
             "kind_free_text": "rustc_private driver exporting type-checked MIR facts (driver/) + Python rule engines "
                               "(analysis/: lock-order, ordering/dominance, atomicity, decoder, bounds, import, "
                               "version-coverage) over rule tables (rules/)"},
        ],
        "checks": checks,
        "notes": "Static analysis only: no repository code is executed by any check. Repairs of genuine defects are "
                 "'fix:' commits in /repo, listed in known_findings.txt together with the recorded findings.",
        "not_applicable": na,
    }
    with open(os.path.join(VERIF, "MANIFEST.json"), "w") as fh:
        json.dump(m, fh, indent=1)
    print("MANIFEST.json: %d checks, %d not applicable" % (len(checks), len(na)))


if __name__ == "__main__":
    main()
