"""Shared check plumbing: obligations, violations, known findings, evidence, exit codes."""
import hashlib
import json
import os
import re
import sys
import time

VERIF = os.path.dirname(os.path.dirname(os.path.abspath(__file__)))
KNOWN = os.path.join(VERIF, "known_findings.txt")


class AnchorMissing(Exception):
    """The checker cannot find something it needs (fail closed; never a VIOLATION)."""


def load_known(pid):
    """-> {key: text} of `finding:` lines for property pid."""
    out = {}
    if not os.path.exists(KNOWN):
        return out
    for line in open(KNOWN):
        line = line.rstrip("\n")
        m = re.match(r"^finding:\s+property=(\S+)\s+key=(.+?)\s+::\s+(.*)$", line)
        if m and m.group(1) == pid:
            out[m.group(2)] = m.group(3)
    return out


class Check:
    def __init__(self, pid, tier="quick"):
        self.pid = pid
        self.tier = tier
        self.t0 = time.time()
        self.obligations = []   # (name, ok, detail)
        self.violations = []    # dict(key, msg, detail)
        self.samples = []
        self.cov = {}
        self.assumptions = []
        self.trusted = []
        self.notes = []
        self.controls = []      # (name, fired)

    def oblige(self, name, ok, detail=None, key=None, msg=None):
        """Record one rule instance. If not ok, it becomes a violation keyed by `key`."""
        self.obligations.append((name, bool(ok), detail))
        if not ok:
            self.violations.append({"key": key or name, "msg": msg or name, "detail": detail})
        return ok

    def violate(self, key, msg, detail=None):
        self.violations.append({"key": key, "msg": msg, "detail": detail})

    def control(self, name, fired):
        self.controls.append((name, bool(fired)))

    def sample(self, s):
        if len(self.samples) < 12:
            self.samples.append(s)

    def finish(self, explanation, checker_cmd):
        known = load_known(self.pid)
        outdir = os.path.join(VERIF, "out", self.pid)
        os.makedirs(outdir, exist_ok=True)
        # controls that did not fire = broken checker
        dead = [n for n, f in self.controls if not f]
        if dead:
            print("CHECKER-BROKEN property=%s positive controls did not fire: %s" % (self.pid, ", ".join(dead)))
            self._write_evidence(explanation, checker_cmd, 0, broken=True)
            sys.exit(2)
        new = []
        seen_known = set()
        seen = set()
        for v in self.violations:
            if v["key"] in seen:
                continue
            seen.add(v["key"])
            if v["key"] in known:
                seen_known.add(v["key"])
                print("KNOWN-FINDING: property=%s %s [key=%s]" % (self.pid, known[v["key"]], v["key"]))
            else:
                new.append(v)
        for k in known:
            if k not in seen_known:
                print("note: listed finding no longer derived (stale entry): %s" % k)
        for v in new:
            h = hashlib.sha256(v["key"].encode()).hexdigest()[:16]
            path = os.path.join(outdir, h + ".json")
            with open(path, "w") as fh:
                json.dump({"property": self.pid, "key": v["key"], "msg": v["msg"], "detail": v["detail"]}, fh,
                          indent=1, default=str)
            print("VIOLATION property=%s replay=%s" % (self.pid, path))
            print("  rule: %s" % v["msg"])
            print("  key:  %s" % v["key"])
        self.cov["known_findings"] = sorted(seen_known)
        self._write_evidence(explanation, checker_cmd, len(new), known_hits=len(seen_known))
        n_ok = sum(1 for _, ok, _ in self.obligations if ok)
        print("%s: %d rule instances evaluated, %d satisfied, %d known findings, %d new violations (%.1fs)" % (
            self.pid, len(self.obligations), n_ok, len(seen_known), len(new), time.time() - self.t0))
        sys.exit(1 if new else 0)

    def _write_evidence(self, explanation, checker_cmd, nviol, broken=False, known_hits=0):
        if os.environ.get("VERIF_NO_EVIDENCE"):
            return   # scratch-copy runs (mutants, seeded changes) never touch the evidence of /repo
        n_ok = sum(1 for _, ok, _ in self.obligations if ok)
        cov = {
            "explanation": explanation,
            "obligations": len(self.obligations),
            "discharged": n_ok,
            "known_findings_rederived": known_hits,
            "checker_cmd": checker_cmd,
            "trusted_base": self.trusted,
            "samples": self.samples or [o[0] for o in self.obligations[:5]] or ["(none)"],
            "rule_instances": [{"rule": n, "holds": ok} for n, ok, _ in self.obligations][:400],
            "positive_controls": [{"control": n, "fired": f} for n, f in self.controls],
            "exhaustive": True,
        }
        cov.update(self.cov)
        ev = {
            "property_id": self.pid,
            "tier": self.tier,
            "seed": int(os.environ.get("VERIF_SEED", "0") or 0),
            "level": "other",
            "coverage": cov,
            "assumptions": self.assumptions,
            "wall_s": round(time.time() - self.t0, 2),
            "violations": nviol,
        }
        if broken:
            ev["coverage"]["checker_broken"] = True
        os.makedirs(os.path.join(VERIF, "evidence"), exist_ok=True)
        with open(os.path.join(VERIF, "evidence", self.pid + ".json"), "w") as fh:
            json.dump(ev, fh, indent=1, default=str)


def anchor(cond, what):
    if not cond:
        raise AnchorMissing(what)
