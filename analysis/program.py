"""Program model over the exported MIR facts: bodies, CFG, call resolution (exact / CHA),
local value-flow tracing, dominators and generic dataflow helpers.  No rule logic."""
import re
from collections import defaultdict, deque

WS_CRATES = ("rawdb", "vecdb", "verif_fixtures")


class Body:
    __slots__ = ("id", "krate", "span", "kind", "parent", "root", "pub", "trait_method", "impl_self",
                 "in_trait", "arg_count", "locals", "vars", "blocks", "_succ", "_pred", "_rpo", "_defs",
                 "_dom", "name_of", "hkey")

    def __init__(self, j):
        self.id = j["id"]
        self.krate = j["krate"]
        self.span = j["span"]
        self.kind = j["kind"]
        self.parent = j["parent"]
        self.root = j["root"]
        self.pub = j["pub"]
        self.trait_method = j["trait_method"]
        self.impl_self = j["impl_self"]
        self.in_trait = j["in_trait"]
        self.arg_count = j["arg_count"]
        self.locals = j["locals"]
        self.vars = j["vars"]
        self.blocks = j["blocks"]
        self._succ = None
        self._pred = None
        self._rpo = None
        self._defs = None
        self._dom = None
        self.hkey = j.get("hkey", j["id"])
        self.name_of = {}
        for name, place in self.vars:
            if not place["p"]:
                self.name_of.setdefault(place["l"], name)

    # ---- CFG (normal edges only; unwind/cleanup ignored) ----
    def succ(self, b):
        if self._succ is None:
            self._succ = [self._compute_succ(i) for i in range(len(self.blocks))]
        return self._succ[b]

    def _compute_succ(self, i):
        t = self.blocks[i]["term"]
        k = t["k"]
        if k == "goto":
            return [t["target"]]
        if k == "switch":
            out = [bb for _, bb in t["targets"]]
            out.append(t["otherwise"])
            seen = []
            for x in out:
                if x not in seen:
                    seen.append(x)
            return seen
        if k in ("call", "drop", "assert"):
            return [t["target"]] if t.get("target") is not None else []
        return []

    def preds(self):
        if self._pred is None:
            p = defaultdict(list)
            for i in range(len(self.blocks)):
                for s in self.succ(i):
                    p[s].append(i)
            self._pred = p
        return self._pred

    def reachable(self):
        """Blocks reachable from entry over normal edges, in reverse post-order."""
        if self._rpo is None:
            seen = set()
            order = []
            stack = [(0, iter(self.succ(0)))]
            seen.add(0)
            while stack:
                n, it = stack[-1]
                adv = False
                for s in it:
                    if s not in seen:
                        seen.add(s)
                        stack.append((s, iter(self.succ(s))))
                        adv = True
                        break
                if not adv:
                    order.append(n)
                    stack.pop()
            order.reverse()
            self._rpo = order
        return self._rpo

    def dominators(self):
        """idom-free dominator sets (bodies are small)."""
        if self._dom is None:
            rpo = self.reachable()
            allb = set(rpo)
            dom = {b: set(allb) for b in rpo}
            dom[0] = {0}
            preds = self.preds()
            changed = True
            while changed:
                changed = False
                for b in rpo:
                    if b == 0:
                        continue
                    ps = [p for p in preds[b] if p in dom]
                    new = set(allb)
                    for p in ps:
                        new &= dom[p]
                    new.add(b)
                    if new != dom[b]:
                        dom[b] = new
                        changed = True
            self._dom = dom
        return self._dom

    def term(self, b):
        return self.blocks[b]["term"]

    def calls(self):
        """[(block, term)] for every call terminator in reachable non-cleanup blocks."""
        out = []
        for b in self.reachable():
            t = self.blocks[b]["term"]
            if t["k"] == "call":
                out.append((b, t))
        return out

    def return_blocks(self):
        return [b for b in self.reachable() if self.blocks[b]["term"]["k"] == "return"]

    # ---- definitions of locals ----
    def defs(self):
        """local -> list of ('assign', block, idx, rvalue) | ('call', block, term) definitions
        that write the *whole* local."""
        if self._defs is None:
            d = defaultdict(list)
            for b in self.reachable():
                blk = self.blocks[b]
                for i, st in enumerate(blk["stmts"]):
                    if st[0] == "assign" and not st[1]["p"]:
                        d[st[1]["l"]].append(("assign", b, i, st[2]))
                t = blk["term"]
                if t["k"] == "call" and not t["dest"]["p"] and not t.get("inlined"):
                    # (an inlined call's destination is defined by the assignment in the callee's return block)
                    d[t["dest"]["l"]].append(("call", b, t))
            self._defs = d
        return self._defs

    def local_ty(self, l):
        return self.locals[l]["ty"]


def op_place(op):
    """place of a copy/move operand, else None."""
    if "c" in op:
        return op["c"]
    if "m" in op:
        return op["m"]
    return None


def op_local(op):
    p = op_place(op)
    return p["l"] if p is not None else None


def op_const(op):
    return op.get("k")


def is_move(op):
    return "m" in op


class Program:
    def __init__(self, crates):
        self.crates = crates
        self.bodies = {}
        self.adts = {}
        self.consts = {}
        self.traits = {}
        self.impl_map = defaultdict(list)   # trait method path -> [impl body id]
        self.trait_has_default = {}
        for c in crates:
            for bj in c["bodies"]:
                b = Body(bj)
                self.bodies[b.id] = b
            for a in c["adts"]:
                self.adts[a["path"]] = a
            for k in c["consts"]:
                self.consts[k["path"]] = k["value"]
            for t in c["traits"]:
                self.traits[t["path"]] = t
                for m in t["methods"]:
                    self.trait_has_default[m["path"]] = m["has_default"]
            for im in c["impls"]:
                if im["trait"]:
                    for tm, body in im["methods"]:
                        self.impl_map[tm].append(body)
        self.children = defaultdict(list)
        for b in self.bodies.values():
            if b.parent:
                self.children[b.parent].append(b.id)
        self._callers = None

    # ---- call resolution ----
    def drop_bodies(self, adt):
        """bodies of `impl Drop for <adt>` (the ADT may carry lifetime / type parameters in the impl header)."""
        idx = self.__dict__.get("_drop_idx")
        if idx is None:
            idx = {}
            for bid in self.bodies:
                m = re.match(r"^<(.+) as core::ops::drop::Drop>::drop$", bid)
                if m:
                    base = re.sub(r"<.*$", "", m.group(1))
                    idx.setdefault(base, []).append(bid)
            self._drop_idx = idx
        return idx.get(re.sub(r"<.*$", "", adt), [])

    def resolve(self, callee):
        """Return (kind, targets):
        kind 'ws'       -> targets = list of body ids in the analysed crates (exact or CHA)
        kind 'external' -> targets = [path] (leaf outside the workspace)
        kind 'callback' -> invocation of a callable value (Fn*/call on param, dyn or fn pointer)
        kind 'unknown'."""
        path = callee.get("path", "")
        rkind = callee.get("rkind")
        if rkind == "indirect":
            return "callback", []
        tr = callee.get("trait")
        if tr in ("core::ops::function::FnOnce", "core::ops::function::FnMut", "core::ops::function::Fn"):
            rp = callee.get("rpath")
            if rkind in ("item", "closure_once") and rp in self.bodies:
                return "ws", [rp]
            return "callback", []
        if rkind in ("item", "closure_once", "clone_shim", "drop_glue", "fnptr_shim", "intrinsic", "other"):
            rp = callee.get("rpath")
            if rp in self.bodies:
                # a provided trait method resolved on an unknown Self may be overridden
                if rp == path and tr and callee.get("krate") in WS_CRATES and self._self_is_open(callee):
                    return "ws", self.cha(path)
                return "ws", [rp]
            if callee.get("rkrate") in WS_CRATES or callee.get("krate") in WS_CRATES:
                # workspace item without MIR (e.g. trait method declaration)
                if tr:
                    t = self.cha(path)
                    if t:
                        return "ws", t
                return "unknown", [path]
            return "external", [rp or path]
        # unresolved / virtual
        if tr and callee.get("krate") in WS_CRATES:
            t = self.cha(path)
            if t:
                return "ws", t
            return "unknown", [path]
        return "external", [path]

    def _self_is_open(self, callee):
        st = callee.get("self_ty", "")
        return st == "Self" or re.fullmatch(r"[A-Z][A-Za-z0-9]*", st) is not None or st.startswith("dyn ") \
            or st.startswith("impl ")

    def cha(self, trait_method):
        out = list(self.impl_map.get(trait_method, []))
        out = [o for o in out if o in self.bodies]
        if trait_method in self.bodies:
            out.append(trait_method)
        return sorted(set(out))

    def callers(self):
        """body id -> [(caller id, block)] over resolved workspace calls."""
        if self._callers is None:
            c = defaultdict(list)
            for b in self.bodies.values():
                for blk, t in b.calls():
                    kind, tg = self.resolve(t["callee"])
                    if kind == "ws":
                        for g in tg:
                            c[g].append((b.id, blk))
            self._callers = c
        return self._callers

    def find(self, suffix):
        """bodies whose id ends with `suffix` (helper for anchors)."""
        return sorted(i for i in self.bodies if i.endswith(suffix))

    def body(self, bid):
        return self.bodies[bid]


# ---- generic forward dataflow over a body's CFG ----

def forward(body, init, transfer_block, join, bottom=None):
    """Worklist forward analysis.  transfer_block(b, in_state) -> {succ: out_state} or out_state.
    Returns in-state per reachable block."""
    instate = {0: init}
    work = deque([0])
    inq = {0}
    while work:
        b = work.popleft()
        inq.discard(b)
        out = transfer_block(b, instate[b])
        for s in body.succ(b):
            o = out[s] if isinstance(out, dict) else out
            if s not in instate:
                instate[s] = o
                if s not in inq:
                    work.append(s)
                    inq.add(s)
            else:
                n = join(instate[s], o)
                if n != instate[s]:
                    instate[s] = n
                    if s not in inq:
                        work.append(s)
                        inq.add(s)
    return instate


def short(path):
    """Readable short form of a def path (drop module chains of well-known prefixes)."""
    return path


def strip_generics(s):
    out = []
    depth = 0
    for ch in s:
        if ch == "<":
            depth += 1
        elif ch == ">":
            depth -= 1
        elif depth == 0:
            out.append(ch)
    return "".join(out)


# ---- virtual inlining of private helpers (a maintainer may move parts of an anchored function into them) ----

def _shift_place(pl, off):
    out = {"l": pl["l"] + off, "p": []}
    for e in pl["p"]:
        if isinstance(e, list) and e[0] == "i":
            out["p"].append(["i", e[1] + off])
        else:
            out["p"].append(e)
    return out


def _shift(x, off):
    """deep copy of a facts fragment with every local renumbered by +off."""
    if isinstance(x, dict):
        if "l" in x and "p" in x and len(x) == 2:
            return _shift_place(x, off)
        return {k: _shift(v, off) for k, v in x.items()}
    if isinstance(x, list):
        return [_shift(v, off) for v in x]
    return x


def _shift_stmt(st, off):
    if st[0] in ("dead", "live"):
        return [st[0], st[1] + off]
    return [st[0]] + [_shift(v, off) for v in st[1:]]


def _file_of(span):
    return (span or "?").split(":")[0]


def inline_helpers(P, fn, max_depth=3):
    """Return a Body for `fn` in which calls to non-public, non-recursive workspace functions of the same impl/module
    are replaced by the callee's blocks (arguments assigned to the callee's parameters, `return` replaced by an
    assignment of the result and a jump to the continuation).  Returns the original body when nothing is inlinable."""
    F = P.bodies[fn]
    prefix = fn.rsplit("::", 1)[0] + "::"
    j = {"id": F.id, "krate": F.krate, "span": F.span, "kind": F.kind, "parent": F.parent, "root": F.root, "pub": F.pub,
         "trait_method": F.trait_method, "impl_self": F.impl_self, "in_trait": F.in_trait, "arg_count": F.arg_count,
         "locals": list(F.locals), "vars": list(F.vars), "blocks": [dict(b, stmts=list(b["stmts"])) for b in F.blocks],
         "hkey": F.id + "#inlined"}
    inlined = []
    result_locals = []
    budget = 64          # small accessors of a private state struct are inlined many times
    cbudget = 32

    def eligible(g):
        G = P.bodies.get(g)
        if G is None or G.pub or G.kind == "closure" or g == fn:
            return False
        # a private function of the same impl / module, or of the same source file (a free helper next to a trait's
        # provided method, a helper in a sibling impl block)
        # ... or a generic control-flow helper of the same crate that takes a closure (`fn with_retry(f: impl FnOnce()..)`)
        takes_fn = any(G.locals[k_].get("callable") == "paramfn" for k_ in range(1, G.arg_count + 1))
        if not g.startswith(prefix) and not (G.krate == F.krate and (_file_of(G.span) == _file_of(F.span) or takes_fn)):
            return False
        # not recursive
        seen, st = set(), [g]
        while st:
            x = st.pop()
            for _, t in P.bodies[x].calls():
                kind, tg = P.resolve(t["callee"])
                if kind == "ws":
                    for y in tg:
                        if y == g or y == fn:
                            return False
                        if y not in seen and y.startswith(prefix) and len(seen) < 40:
                            seen.add(y)
                            st.append(y)
        return len(G.blocks) <= 400

    depth = {i: 0 for i in range(len(j["blocks"]))}
    i = 0
    while i < len(j["blocks"]) and budget > 0 and len(j["blocks"]) < 6000:
        blk = j["blocks"][i]
        t = blk["term"]
        if t["k"] == "call" and not blk.get("cleanup") and depth.get(i, 0) < max_depth and t.get("target") is not None:
            kind, tg = P.resolve(t["callee"])
            if kind == "ws" and len(tg) == 1 and eligible(tg[0]):
                G = P.bodies[tg[0]]
                budget -= 1
                inlined.append(G.id)
                loff = len(j["locals"])
                boff = len(j["blocks"])
                result_locals.append(loff)
                j["locals"] = j["locals"] + list(G.locals)
                for name, place in G.vars:
                    j["vars"].append([name, _shift_place(place, loff)])
                cont = t["target"]
                dest = t["dest"]
                # argument passing (a closure handed to a generic parameter keeps its identity in the callee)
                for k, a in enumerate(t["args"]):
                    blk["stmts"].append(["assign", {"l": loff + 1 + k, "p": []}, {"k": "use", "ops": [a]}, t.get("span", "?")])
                    apl = op_place(a)
                    if apl is not None and not apl["p"]:
                        src = j["locals"][apl["l"]]
                        if (src.get("callable") or "").startswith("closure:") and loff + 1 + k < len(j["locals"]):
                            nl = dict(j["locals"][loff + 1 + k])
                            nl["callable"] = src["callable"]
                            nl["closures"] = list(src.get("closures", []))
                            j["locals"][loff + 1 + k] = nl
                # the call site stays visible to the rules (same callee names); control continues in the callee's blocks
                nt0 = dict(t)
                nt0["target"] = boff
                nt0["inlined"] = True
                blk["term"] = nt0
                for gi, gb in enumerate(G.blocks):
                    nb = {"stmts": [_shift_stmt(s, loff) for s in gb["stmts"]], "cleanup": gb.get("cleanup", False)}
                    gt = gb["term"]
                    nt = _shift(gt, loff)
                    for key in ("target", "unwind", "otherwise"):
                        if isinstance(gt.get(key), int):
                            nt[key] = gt[key] + boff
                    if gt["k"] == "switch":
                        nt["targets"] = [[v, b + boff] for v, b in gt["targets"]]
                    if gt["k"] == "return":
                        nb["stmts"].append(["assign", dest, {"k": "use", "ops": [{"m": {"l": loff, "p": []}}]}, t.get("span", "?")])
                        nt = {"k": "goto", "target": cont}
                    nb["term"] = nt
                    j["blocks"].append(nb)
                    depth[boff + gi] = depth.get(i, 0) + 1
            elif kind != "ws" and cbudget > 0 and len(j["blocks"]) < 4000 and _closure_host(t):
                # closures handed to a std/core/alloc combinator (iterator adaptors, Option/Result combinators,
                # bool::then, retain, sort_by ...): the combinator calls them zero or more times.  Spliced in front of
                # the call as a loop `head: nondet -> closure body -> head | call`, the environment parameter bound
                # to the closure value, the other parameters to the receiver, the closure's result made an extra
                # operand of the call.  (Same approximation as reach-matchers: a lazily evaluated adaptor's closure is
                # placed where the adaptor is built.)
                cls = []
                for a in t["args"]:
                    pl = op_place(a)
                    if pl is None or pl["p"]:
                        continue
                    cal = j["locals"][pl["l"]].get("callable") or ""
                    if not cal.startswith("closure:"):
                        # `&mut f` / a moved copy of a closure-valued local (FnMut::call_mut(&mut f, ..))
                        cur, hops = pl["l"], 0
                        while hops < 3:
                            hops += 1
                            ds = [(bi, st_) for bi, bb in enumerate(j["blocks"]) for st_ in bb["stmts"]
                                  if st_[0] == "assign" and st_[1]["l"] == cur and not st_[1]["p"]]
                            if len(ds) != 1:
                                break
                            rv_ = ds[0][1][2]
                            nxt = rv_.get("place") if rv_["k"] in ("ref", "rawptr") else (
                                op_place(rv_["ops"][0]) if rv_["k"] == "use" and rv_.get("ops") else None)
                            if nxt is None or nxt["p"]:
                                break
                            cur = nxt["l"]
                            c2 = j["locals"][cur].get("callable") or ""
                            if c2.startswith("closure:"):
                                cal = c2
                                pl = {"l": cur, "p": []}
                                break
                    if cal.startswith("closure:") and cal[8:] in P.bodies and len(P.bodies[cal[8:]].blocks) <= 400:
                        cls.append((pl["l"], P.bodies[cal[8:]]))
                if cls:
                    recv = next((a for a in t["args"] if op_place(a) is not None and op_place(a)["l"] not in
                                 [c[0] for c in cls]), None)
                    nd = len(j["locals"])
                    j["locals"] = j["locals"] + [{"ty": "usize"}]
                    head = len(j["blocks"])
                    callb = head + 1
                    j["blocks"].append({"stmts": [], "cleanup": False, "term": None})
                    call_t = dict(t)
                    call_t["args"] = list(t["args"])
                    call_t["spliced"] = [c[1].id for c in cls]
                    j["blocks"].append({"stmts": [], "cleanup": False, "term": call_t})
                    depth[head] = depth[callb] = max_depth   # the moved call itself is final
                    blk["term"] = {"k": "goto", "target": head}
                    targets = []
                    for n_, (cl_local, G) in enumerate(cls):
                        cbudget -= 1
                        inlined.append(G.id)
                        loff = len(j["locals"])
                        boff = len(j["blocks"])
                        j["locals"] = j["locals"] + list(G.locals)
                        for name, place in G.vars:
                            j["vars"].append([name, _shift_place(place, loff)])
                        entry = len(j["blocks"]) + len(G.blocks)
                        # parameter binding block
                        bind = []
                        env_ty = G.locals[1]["ty"] if G.arg_count >= 1 else ""
                        if G.arg_count >= 1:
                            if env_ty.startswith("&"):
                                bind.append(["assign", {"l": loff + 1, "p": []}, {"k": "ref", "place": {"l": cl_local, "p": []}},
                                             t.get("span", "?")])
                            else:
                                bind.append(["assign", {"l": loff + 1, "p": []}, {"k": "use", "ops": [{"c": {"l": cl_local, "p": []}}]},
                                             t.get("span", "?")])
                        if recv is not None:
                            rp = op_place(recv)
                            for k in range(2, G.arg_count + 1):
                                bind.append(["assign", {"l": loff + k, "p": []}, {"k": "use", "ops": [{"c": rp}]}, "<closure-param>"])
                        for gi, gb in enumerate(G.blocks):
                            nb = {"stmts": [_shift_stmt(s_, loff) for s_ in gb["stmts"]], "cleanup": gb.get("cleanup", False)}
                            gt = gb["term"]
                            nt = _shift(gt, loff)
                            for key in ("target", "unwind", "otherwise"):
                                if isinstance(gt.get(key), int):
                                    nt[key] = gt[key] + boff
                            if gt["k"] == "switch":
                                nt["targets"] = [[v, b + boff] for v, b in gt["targets"]]
                            if gt["k"] == "return":
                                nt = {"k": "goto", "target": head}
                            nb["term"] = nt
                            j["blocks"].append(nb)
                            depth[boff + gi] = depth.get(i, 0) + 1
                        j["blocks"].append({"stmts": bind, "cleanup": False, "term": {"k": "goto", "target": boff}})
                        depth[entry] = max_depth
                        targets.append([str(n_), entry])
                        call_t["args"].append({"c": {"l": loff, "p": []}})
                    direct = re.match(r"core::ops::function::Fn(Once|Mut)?::call(_once|_mut)?$", t["callee"].get("path") or "")
                    if direct and len(targets) == 1:
                        # `f()` itself: the closure runs exactly once - straight line instead of a nondeterministic loop
                        j["blocks"][head]["term"] = {"k": "goto", "target": targets[0][1]}
                        for bi in range(head + 2, len(j["blocks"])):
                            tt = j["blocks"][bi]["term"]
                            if tt and tt.get("k") == "goto" and tt.get("target") == head and bi != targets[0][1]:
                                tt["target"] = callb
                    else:
                        j["blocks"][head]["term"] = {"k": "switch", "op": {"c": {"l": nd, "p": []}}, "targets": targets,
                                                     "otherwise": callb}
        i += 1
    if not inlined:
        j2 = dict(j)
        nb = _thread_results(j2, set())
        if nb is None or len(nb) == len(j["blocks"]):
            return F, []
        j2["blocks"] = nb
        j2["hkey"] = F.id + "#threaded"
        return Body(j2), []
    tracked = {l for l in result_locals if j["locals"][l]["ty"].startswith("core::result::Result<")}
    nb = _thread_results(j, tracked)
    if nb is not None:
        j["blocks"] = nb
    B = Body(j)
    return B, inlined


NO_CLOSURE_INLINE = re.compile(r"^(std::thread|rayon|rayon_core|std::sync::mpsc|std::panic)")


def _closure_host(t):
    c = t["callee"]
    path = c.get("path") or ""
    kr = c.get("krate") or path.split("::")[0]
    if kr not in ("core", "alloc", "std"):
        return False
    return not NO_CLOSURE_INLINE.match(path) and not NO_CLOSURE_INLINE.match(c.get("rpath") or "")


def _thread_results(j, tracked):
    """Path splitting for inlined helpers that return a Result: the callee's Ok and Err paths meet at its return and
    the caller's `?` separates them again; a join in between would make every path analysis believe that the
    effects of the Ok path can be followed by the Err continuation (and vice versa).  Product of the CFG with the
    known variant of the callee's return value (propagated through moves, `Try::branch` and `discriminant`), with
    the infeasible edge of the deciding switch removed.  Returns the new block list, or None when the product
    would grow beyond a small factor."""
    blocks = j["blocks"]
    # bool locals that some switch branches on directly and that are assigned constants somewhere
    switched = set()
    dropflags = set()
    for blk in blocks:
        t = blk["term"]
        if t and t["k"] == "switch":
            l = op_local(t["op"])
            if l is not None and not op_place(t["op"])["p"] and j["locals"][l]["ty"] == "bool":
                succs = [bb for _, bb in t["targets"]] + [t["otherwise"]]
                if any(blocks[x]["term"] and blocks[x]["term"]["k"] == "drop" for x in succs):
                    dropflags.add(l)      # drop-elaboration flags live for the whole body: not threaded
                switched.add(l)
    switched -= dropflags
    # `!matches!(..)`: the switched local is the negation of the constant-assigned one
    grew = True
    while grew:
        grew = False
        for blk in blocks:
            for s_ in blk["stmts"]:
                if s_[0] == "assign" and not s_[1]["p"] and s_[1]["l"] in switched and s_[2].get("ops") and (
                        (s_[2]["k"] == "un" and s_[2].get("op") == "Not") or s_[2]["k"] == "use"):
                    src = op_place(s_[2]["ops"][0])
                    if src is not None and not src["p"] and j["locals"][src["l"]]["ty"] == "bool" \
                            and src["l"] not in dropflags and src["l"] not in switched:
                        switched.add(src["l"])
                        grew = True
    boolsw = set()
    for blk in blocks:
        for s_ in blk["stmts"]:
            if s_[0] == "assign" and not s_[1]["p"] and s_[1]["l"] in switched and s_[2]["k"] == "use" and s_[2].get("ops") \
                    and "k" in s_[2]["ops"][0]:
                boolsw.add(s_[1]["l"])
    if not tracked and not boolsw:
        return None

    def step(b, st):
        st = dict(st)
        blk = blocks[b]
        for s_ in blk["stmts"]:
            if s_[0] != "assign":
                continue
            d, rv = s_[1], s_[2]
            if d["p"]:
                continue
            l, k, new = d["l"], rv["k"], None
            if k == "agg" and rv.get("variant") in ("Ok", "Err") and l in tracked:
                new = rv["variant"]
            elif k == "use" and rv.get("ops"):
                src = op_place(rv["ops"][0])
                if src and not src["p"] and src["l"] in st:
                    new = st[src["l"]]
                    if "m" in rv["ops"][0]:
                        st.pop(src["l"])
                elif src is None and l in boolsw:
                    # `_m = const true/false` in the arms of a `matches!` / `&&` / `||`, consumed by a later switch
                    kv = rv["ops"][0].get("k") or {}
                    v = kv.get("v")
                    if v in ("true", "false", "0", "1", 0, 1, True, False):
                        new = ("d", 1 if v in ("true", "1", 1, True) else 0)
            elif k == "un" and rv.get("op") == "Not" and rv.get("ops"):
                src = op_place(rv["ops"][0])
                if src and not src["p"] and isinstance(st.get(src["l"]), tuple):
                    new = ("d", 1 - st[src["l"]][1])
                    if "m" in rv["ops"][0]:
                        st.pop(src["l"])
            elif k == "discr" and not rv["place"]["p"] and rv["place"]["l"] in st and not isinstance(st[rv["place"]["l"]], tuple):
                new = ("d", 0 if st[rv["place"]["l"]] in ("Ok", "Continue") else 1)
            if new is not None:
                st[l] = new
            else:
                st.pop(l, None)
        t = blk["term"]
        k = t["k"]
        if k == "call":
            dl = t["dest"]["l"] if not t["dest"]["p"] else None
            if not t.get("inlined"):
                path = "%s|%s" % (t["callee"].get("path"), t["callee"].get("rpath"))
                a0 = op_place(t["args"][0]) if t["args"] else None
                new = None
                if "from_residual" in path and dl in tracked:
                    new = "Err"
                elif "Try::branch" in path or "Try>::branch" in path:
                    if a0 and not a0["p"] and a0["l"] in st and st[a0["l"]] in ("Ok", "Err"):
                        new = "Continue" if st[a0["l"]] == "Ok" else "Break"
                for a in t["args"]:
                    if "m" in a and not a["m"]["p"]:
                        st.pop(a["m"]["l"], None)
                if dl is not None:
                    if new is not None:
                        st[dl] = new
                    else:
                        st.pop(dl, None)
            out = [("target", t.get("target"), st)]
            if isinstance(t.get("unwind"), int):
                out.append(("unwind", t["unwind"], {}))
            return out
        if k == "switch":
            l = op_local(t["op"])
            if l in st and isinstance(st[l], tuple):
                val = st[l][1]
                tgt = next((bb for v, bb in t["targets"] if str(v) == str(val)), t["otherwise"])
                return [("only", tgt, {})]
            return [("targets", [(v, bb) for v, bb in t["targets"]], st), ("otherwise", t["otherwise"], st)]
        out = []
        for key in ("target", "unwind", "otherwise"):
            if isinstance(t.get(key), int):
                out.append((key, t[key], st if key != "unwind" else {}))
        return out

    ids = {}
    order = []

    def nid(b, st):
        key = (b, frozenset(st.items()))
        if key not in ids:
            ids[key] = len(order)
            order.append(key)
        return ids[key]

    nid(0, {})
    newb = []
    i = 0
    cap = 3 * len(blocks) + 200
    while i < len(order):
        if len(order) > cap:
            return None
        b, stf = order[i]
        blk = blocks[b]
        nt = dict(blk["term"])
        for kind, tgt, st2 in step(b, dict(stf)):
            if tgt is None:
                continue
            if kind == "only":
                nt = {"k": "goto", "target": nid(tgt, st2)}
            elif kind == "targets":
                nt["targets"] = [[v, nid(bb, st2)] for v, bb in tgt]
            else:
                nt[kind] = nid(tgt, st2)
        nblk = {"stmts": blk["stmts"], "cleanup": blk.get("cleanup", False), "term": nt}
        kn = {l: v for l, v in stf if v in ("Ok", "Err")}
        if kn:
            nblk["known"] = kn       # variant of Result locals known on entry to this copy of the block
        newb.append(nblk)
        i += 1
    return newb
