"""Engine A — held-lock sets, lock-order graph, cycles (DESIGN.md §3.A).

Everything is derived from the MIR facts: a lock is *held* by a body at a program point iff a
live local whose type (transitively, by value) contains a guard exists there; acquisitions are
calls to lock_api primitives, classified by the payload type of the lock."""
import json
import os
import re
from collections import defaultdict

from program import op_place, is_move, WS_CRATES

RULES = os.path.join(os.path.dirname(os.path.dirname(os.path.abspath(__file__))), "rules")

PRIM_RW = re.compile(r"^lock_api::rwlock::RwLock::<R, T>::(read|write|upgradable_read|read_recursive|try_read|try_write|"
                     r"try_read_for|try_write_for|try_read_until|try_write_until|try_upgradable_read|try_read_recursive)$")
PRIM_MX = re.compile(r"^lock_api::mutex::Mutex::<R, T>::(lock|try_lock|try_lock_for|try_lock_until)$")
PRIM_STD_MX = re.compile(r"^std::sync::(poison::)?mutex::Mutex::<T>::(lock|try_lock)$")
PRIM_STD_RW = re.compile(r"^std::sync::(poison::)?rwlock::RwLock::<T>::(read|write|try_read|try_write)$")
PRIM_RAW = re.compile(r"^lock_api::(rwlock::RawRwLock|mutex::RawMutex)::(lock_shared|lock_exclusive|lock|try_lock_shared|"
                      r"try_lock_exclusive|try_lock)$")
RAW_ACCESS = re.compile(r"^lock_api::(rwlock::RwLock|mutex::Mutex)::<R, T>::(raw|force_unlock\w*|data_ptr)$|"
                        r"^lock_api::\w+::\w+Guard::<.*>::(leak|unlocked\w*)$|^core::mem::forget$")


class AnchorMissing(Exception):
    pass


class LockTable:
    def __init__(self, j=None):
        j = j or json.load(open(os.path.join(RULES, "lock_classes.json")))
        self.classes = [(c["class"], re.compile(c["payload"]), c.get("doc_name")) for c in j["classes"]]
        self.prefix = j["reference_order_prefix"]
        self.suffix = j["reference_order_suffix"]
        self.raw_bodies = {k: v for k, v in j["raw_lock_bodies"].items()}
        self.floors = {k: v for k, v in j["acquisition_floors"].items() if not k.startswith("_")}
        self.unknown = set()

    def classify(self, payload):
        for cls, rx, _ in self.classes:
            if rx.search(payload):
                return cls
        self.unknown.add(payload)
        return "UNKNOWN<%s>" % payload

    def doc_map(self):
        return {d: c for c, _, d in self.classes if d}


class LockEngine:
    def __init__(self, P, table=None, externals=None):
        self.P = P
        self.T = table or LockTable()
        ext = externals or json.load(open(os.path.join(RULES, "externals.json")))
        self.no_invoke = set(ext["no_invoke"]["paths"])
        self.pseudo = {k: v for k, v in ext["pseudo_calls"].items() if not k.startswith("_")}
        self.drop_exempt = {k for k in ext.get("drop_glue_exempt", {}) if not k.startswith("_")}
        self.owned = {}        # body id -> {local: [(cls, mode)]}
        self.term_held = {}    # body id -> {block: frozenset(locals)} held at the terminator
        self.entry_held = {}
        self.ACQ = defaultdict(dict)   # body -> {item: chain}
        self.CB = defaultdict(lambda: defaultdict(dict))  # body -> slot -> {(cls,mode): holder fn}
        self.prim_sites = defaultdict(list)   # cls -> [(body, mode, blocking)]
        self.raw_sites = []
        self.edges = defaultdict(list)  # (hc,hm,rc,rm) -> [witness]
        self._agg_site = {}
        self._trace_cache = {}
        for b in P.bodies.values():
            self._held(b)

    # ------------------------------------------------------------------ held sets
    def _held(self, body):
        owned = {}
        for l, L in enumerate(body.locals):
            gs = [(self.T.classify(p), m) for (m, p, ref) in L.get("guards", []) if not ref]
            if gs:
                owned[l] = gs
        hk = getattr(body, "hkey", body.id)
        self.owned[hk] = owned
        if not owned:
            self.term_held[hk] = {}
            return
        init = frozenset(l for l in range(1, body.arg_count + 1) if l in owned)

        def step_stmts(b, s):
            s = set(s)
            for st in body.blocks[b]["stmts"]:
                if st[0] == "assign":
                    rv = st[2]
                    fed = False
                    for op in rv.get("ops", []):
                        p = op_place(op)
                        if p is not None and p["l"] in s:
                            fed = True
                            if is_move(op) and not p["p"]:
                                s.discard(p["l"])
                    d = st[1]
                    if d["l"] in owned and fed and rv["k"] in ("use", "cast", "agg", "repeat"):
                        s.add(d["l"])
                elif st[0] == "dead":
                    s.discard(st[1])
            return s

        held_at = {}

        def transfer(b, s):
            s = step_stmts(b, s)
            t = body.blocks[b]["term"]
            if t["k"] == "call":
                for op in t["args"]:
                    p = op_place(op)
                    if p is not None and is_move(op) and not p["p"]:
                        s.discard(p["l"])
                held_at[b] = frozenset(s) | held_at.get(b, frozenset())
                d = t["dest"]
                if d["l"] in owned:
                    s.add(d["l"])
            elif t["k"] == "drop":
                p = t["place"]
                if not p["p"]:
                    s.discard(p["l"])
                held_at[b] = frozenset(s) | held_at.get(b, frozenset())
            else:
                held_at[b] = frozenset(s) | held_at.get(b, frozenset())
            return frozenset(s)

        from program import forward
        forward(body, init, transfer, lambda a, b: a | b)
        self.term_held[hk] = held_at

    def held_items(self, body, b):
        """[(cls, mode, local)] held at the terminator of block b."""
        out = []
        hk = getattr(body, "hkey", body.id)
        owned = self.owned[hk]
        for l in sorted(self.term_held[hk].get(b, ())):
            for cls, m in owned[l]:
                out.append((cls, m, l))
        return out

    def local_desc(self, body, l):
        n = body.name_of.get(l)
        ty = body.locals[l]["ty"]
        ty = re.sub(r"lock_api::\w+::(\w+Guard)<'[_a-z]+, parking_lot::\w+::\w+, ", r"\1<", ty)
        return "%s: %s" % (n or "_%d" % l, ty)

    # ------------------------------------------------------------------ primitives
    def prim(self, callee):
        """(cls, mode, blocking) for a lock acquisition primitive, else None."""
        path = callee.get("path", "")
        m = PRIM_RW.match(path) or PRIM_STD_RW.match(path)
        if m:
            op = m.groups()[-1]
            payload = callee["targs"][-1]
            mode = "W" if "write" in op else ("U" if "upgradable" in op else "R")
            return self.T.classify(payload), mode, not op.startswith("try_") and op != "read_recursive"
        m = PRIM_MX.match(path) or PRIM_STD_MX.match(path)
        if m:
            op = m.groups()[-1]
            payload = callee["targs"][-1]
            return self.T.classify(payload), "M", not op.startswith("try_")
        return None

    # ------------------------------------------------------------------ value tracing
    def agg_site(self, F, K):
        """operands of the aggregate that creates closure K inside body F (or None)."""
        key = (F.id, K)
        if key not in self._agg_site:
            found = None
            for b in F.reachable():
                for st in F.blocks[b]["stmts"]:
                    if st[0] == "assign" and st[2]["k"] == "agg" and st[2].get("closure") == K:
                        found = st[2]["ops"]
            self._agg_site[key] = found
        return self._agg_site[key]

    def trace(self, F, op, seen=None, depth=0):
        """sources of a callable operand inside F: ('closure', id) | ('slot', s) | ('fn', id)."""
        if depth > 12:
            return []
        k = op.get("k")
        if k is not None:
            fn = k.get("fn")
            if fn:
                rp = fn.get("rpath") or fn.get("path")
                if rp in self.P.bodies:
                    return [("fn", rp)]
            return []
        p = op_place(op)
        L = p["l"]
        if F.kind == "closure" and L == 1:
            for e in p["p"]:
                if isinstance(e, list) and e[0] == "f":
                    return [("slot", ("up", e[1]))]
            return []
        if 1 <= L <= F.arg_count:
            return [("slot", L)]
        seen = seen if seen is not None else set()
        if L in seen:
            return []
        seen.add(L)
        out = []
        for d in F.defs().get(L, []):
            if d[0] == "assign":
                rv = d[3]
                kk = rv["k"]
                if kk in ("use", "cast", "repeat"):
                    out += self.trace(F, rv["ops"][0], seen, depth + 1)
                elif kk in ("ref", "rawptr"):
                    out += self.trace(F, {"c": rv["place"]}, seen, depth + 1)
                elif kk == "agg":
                    if rv.get("closure"):
                        out.append(("closure", rv["closure"]))
                    else:
                        for o in rv["ops"]:
                            if op_place(o) is not None:
                                out += self.trace(F, o, seen, depth + 1)
            elif d[0] == "call":
                t = d[2]
                # identity-like wrappers: by_ref / borrow_mut / deref etc. on a callable
                for a in t["args"][:1]:
                    if op_place(a) is not None:
                        pl = op_place(a)["l"]
                        if F.locals[pl].get("callable") or F.locals[pl].get("closures") or F.locals[pl].get("cparams"):
                            out += self.trace(F, a, seen, depth + 1)
        return out

    def slot_sources(self, F, X, slot, args):
        Xb = self.P.bodies[X]
        if isinstance(slot, tuple):   # ('up', k) of closure X created in F
            ops = self.agg_site(F, X)
            if ops is None or slot[1] >= len(ops):
                return []
            return self.trace(F, ops[slot[1]])
        if args is None:
            return []
        if Xb.kind == "closure":
            # direct call of a closure body: args = (env, tupled-or-spread params...)
            idx = slot - 1
        else:
            idx = slot - 1
        if idx < 0 or idx >= len(args):
            return []
        return self.trace(F, args[idx])

    # ------------------------------------------------------------------ summaries
    def inst(self, F, X, args, stack=()):
        """Instantiate ACQ(X) at a site in F.  -> [(item, chain, extra_held)] where item is
        ('L', cls, mode) or ('S', slot-of-F); extra_held = [((cls,mode), holder_fn)]."""
        if X in stack or len(stack) > 8:
            return []
        out = []
        for item, chain in list(self.ACQ.get(X, {}).items()):
            if item[0] == "L":
                out.append((item, (X,) + chain, []))
                continue
            slot = item[1]
            extra = list(self.CB.get(X, {}).get(slot, {}).items())
            for src in self.slot_sources(F, X, slot, args):
                if src[0] == "closure":
                    for it2, ch2, ex2 in self.inst(F, src[1], None, stack + (X,)):
                        out.append((it2, (X, "invokes") + ch2, extra + ex2))
                elif src[0] == "fn":
                    for it2, ch2, ex2 in self.inst(F, src[1], None, stack + (X,)):
                        out.append((it2, (X, "invokes") + ch2, extra + ex2))
                elif src[0] == "slot":
                    out.append((("S", src[1]), (X,) + chain, extra))
        return out

    def site_effects(self, F, b, t):
        P = self.P
        if t["k"] == "call":
            callee = t["callee"]
            pr = self.prim(callee)
            if pr:
                cls, mode, blocking = pr
                if blocking:
                    return [(("L", cls, mode), (), [])]
                return []
            kind, targets = P.resolve(callee)
            out = []
            if kind == "ws":
                for G in targets:
                    out += self.inst(F, G, t["args"])
                return out
            if kind == "callback":
                if callee.get("rkind") == "indirect":
                    op = {"c": callee["place"]}
                else:
                    op = t["args"][0]
                for src in self.trace(F, op):
                    if src[0] in ("closure", "fn"):
                        out += self.inst(F, src[1], None)
                    else:
                        out.append((("S", src[1]), ("<callback>",), []))
                return out
            if kind == "external":
                path = targets[0] if targets else callee.get("path", "")
                cpath = callee.get("path", "")
                if path in self.no_invoke or cpath in self.no_invoke:
                    return []
                for pc in (path, cpath):
                    if pc in self.pseudo:
                        for g in self.pseudo[pc]:
                            if g not in P.bodies:
                                raise AnchorMissing("pseudo-call target %s not found" % g)
                            out += [(i, ("join(bg task)",) + c, e) for i, c, e in self.inst(F, g, None)]
                        return out
                # closures / callable params reachable from the arguments are assumed invoked here
                for a in t["args"]:
                    p = op_place(a)
                    if p is None:
                        continue
                    L = F.locals[p["l"]]
                    for K in L.get("closures", []):
                        if K in P.bodies:
                            out += [(i, ("<external %s>" % cpath,) + c, e) for i, c, e in self.inst(F, K, None)]
                    if L.get("cparams") or L.get("callable") in ("paramfn", "dynfn", "fnptr"):
                        for src in self.trace(F, a):
                            if src[0] == "slot":
                                out.append((("S", src[1]), ("<external %s>" % cpath,), []))
                            elif src[0] in ("closure", "fn"):
                                out += self.inst(F, src[1], None)
                return out
            return []
        if t["k"] == "drop":
            out = []
            for adt in t.get("owners", []):
                if adt in self.drop_exempt:
                    continue
                for d in P.drop_bodies(adt):
                    out += [(i, ("drop glue",) + c, e) for i, c, e in self.inst(F, d, None)]
            return out
        return []

    def process(self, F, emit=False):
        acq = {}
        cb = defaultdict(dict)
        for b in F.reachable():
            t = F.blocks[b]["term"]
            if t["k"] not in ("call", "drop"):
                continue
            eff = self.site_effects(F, b, t)
            if not eff:
                continue
            H = self.held_items(F, b)
            for item, chain, extra in eff:
                if item not in acq or len(chain) < len(acq[item]):
                    acq[item] = chain
                if item[0] == "S":
                    for cls, m, l in H:
                        cb[item[1]].setdefault((cls, m), F.id)
                    for hm, holder in extra:
                        cb[item[1]].setdefault(hm, holder)
                elif emit:
                    for cls, m, l in H:
                        self._edge(cls, m, item, F, self.local_desc(F, l), chain, t)
                    for (cls, m), holder in extra:
                        self._edge(cls, m, item, self.P.bodies[holder], "(held while invoking the callback)", chain, t,
                                   via_cb=F.id)
        return acq, cb

    def _edge(self, hc, hm, item, Fholder, holder_desc, chain, t, via_cb=None):
        _, rc, rm = item
        via = chain[0] if chain else "<primitive>"
        w = {
            "fn": Fholder.id,
            "held": "%s:%s" % (hc, hm),
            "held_by": holder_desc,
            "requested": "%s:%s" % (rc, rm),
            "via": via,
            "chain": list(chain),
            "span": t.get("span"),
        }
        if via_cb:
            w["bound_at"] = via_cb
        self.edges[(hc, hm, rc, rm)].append(w)

    def solve(self):
        P = self.P
        # primitive sites + raw lock use
        for F in P.bodies.values():
            for b, t in F.calls():
                pr = self.prim(t["callee"])
                if pr:
                    self.prim_sites[pr[0]].append((F.id, pr[1], pr[2]))
                path = t["callee"].get("path", "")
                if PRIM_RAW.match(path) or (RAW_ACCESS.match(path) and t["callee"].get("krate") == "lock_api"):
                    self.raw_sites.append((F.id, path))
        # raw lock bodies become acquisition primitives of the class their guard ADT carries
        rounds = 0
        changed = True
        order = sorted(P.bodies.values(), key=lambda b: b.id)
        while changed:
            rounds += 1
            changed = False
            for F in order:
                acq, cb = self.process(F)
                if F.id == "vecdb::exit::guard::ExitGuard::new":
                    acq[("L", "EXIT", "R")] = ()
                old = self.ACQ.get(F.id, {})
                if set(acq) != set(old):
                    self.ACQ[F.id] = acq
                    changed = True
                oldcb = self.CB.get(F.id, {})
                flat_new = {(s, h) for s, d in cb.items() for h in d}
                flat_old = {(s, h) for s, d in oldcb.items() for h in d}
                if flat_new != flat_old:
                    self.CB[F.id] = cb
                    changed = True
            if rounds > 40:
                raise RuntimeError("lock summaries did not converge")
        self.rounds = rounds
        for F in order:
            self.process(F, emit=True)
        return self

    # ------------------------------------------------------------------ verdict
    def reference_order(self):
        """Parse the documented lock order from the doc comment of rawdb::DatabaseInner."""
        adt_path = getattr(self, "order_adt", "rawdb::DatabaseInner")
        adt = self.P.adts.get(adt_path)
        if adt is None:
            raise AnchorMissing("%s not found" % adt_path)
        m = re.search(r"Lock ordering:\s*(.+?)\.?\s*$", adt["doc"], re.M)
        if not m:
            raise AnchorMissing("'Lock ordering:' sentence missing from the doc comment of rawdb::DatabaseInner")
        names = [x.strip() for x in re.split(r"→|->", m.group(1))]
        dm = self.T.doc_map()
        mid = []
        for n in names:
            if n not in dm:
                raise AnchorMissing("documented lock order names unknown lock '%s'" % n)
            mid.append(dm[n])
        order = self.T.prefix + mid + self.T.suffix
        return order, names

    def writer_sites(self):
        ws = defaultdict(int)
        for cls, sites in self.prim_sites.items():
            for _, mode, _ in sites:
                if mode in ("W", "M", "U"):
                    ws[cls] += 1
        return ws

    def verdict(self, exempt):
        """-> (violations, info). A violation = inverting edge inside a feasible cycle, or a
        blocking same-class nesting."""
        order, names = self.reference_order()
        rank = {c: i for i, c in enumerate(order)}
        ws = self.writer_sites()
        classes = set()
        for (hc, hm, rc, rm) in self.edges:
            classes.add(hc)
            classes.add(rc)
        for c in classes:
            if c not in rank:
                raise AnchorMissing("lock class %s has no position in the reference order" % c)
        # class graph
        g = defaultdict(set)
        for (hc, hm, rc, rm) in self.edges:
            if hc != rc:
                g[hc].add(rc)

        def reach(a, b):
            seen = {a}
            st = [a]
            while st:
                x = st.pop()
                if x == b:
                    return True
                for y in g[x]:
                    if y not in seen:
                        seen.add(y)
                        st.append(y)
            return False

        def path(a, b):
            prev = {a: None}
            st = [a]
            while st:
                x = st.pop(0)
                if x == b:
                    out = []
                    while x is not None:
                        out.append(x)
                        x = prev[x]
                    return out[::-1]
                for y in sorted(g[x]):
                    if y not in prev:
                        prev[y] = x
                        st.append(y)
            return None

        viol = []
        examined_cycles = 0
        for (hc, hm, rc, rm), wits in sorted(self.edges.items()):
            if hc == rc:
                # same-class nesting on one thread
                blocking = hm in ("W", "M") or rm in ("W", "M") or ws.get(hc, 0) > 0
                if not blocking:
                    continue
                kind = "recursive-%s" % ("read" if (hm, rm) == ("R", "R") else "lock")
                for w in wits:
                    viol.append(self._mk(kind, w, cyc=[hc, hc]))
                continue
            if rank[hc] > rank[rc]:
                back = path(rc, hc)
                if back is None:
                    continue
                examined_cycles += 1
                for w in wits:
                    viol.append(self._mk("order-inversion", w, cyc=back + [rc]))
        # group by key (construct), collecting every lock pair it contributes; apply exemptions
        out = {}
        exempted = []
        for v in viol:
            ex = exempt.get(v["key"])
            if ex:
                exempted.append((v["key"], ex))
                continue
            g = out.setdefault(v["key"], {"key": v["key"], "kinds": set(), "pairs": set(), "witness": v["witness"],
                                          "cycles": [], "holders": set()})
            g["kinds"].add(v["kind"])
            pair = "%s->%s" % (v["witness"]["held"], v["witness"]["requested"])
            if pair not in g["pairs"]:
                g["pairs"].add(pair)
                g["cycles"].append(" -> ".join(v["cycle"]))
            g["holders"].add(v["witness"]["fn"])
        res = []
        for g in out.values():
            g["kinds"] = sorted(g["kinds"])
            g["pairs"] = sorted(g["pairs"])
            g["holders"] = sorted(g["holders"])
            res.append(g)
        info = {"order": order, "doc_names": names, "examined_cycles": examined_cycles,
                "exempted": sorted(set(exempted)), "writer_sites": dict(ws)}
        return res, info

    def _mk(self, kind, w, cyc):
        if w.get("bound_at"):
            ch = w["chain"]
            tgt = ch[ch.index("invokes") + 1] if "invokes" in ch else w["via"]
            key = "callback|%s|%s" % (w["bound_at"], tgt)
        else:
            key = "%s|%s|%s" % (self._owner(w["fn"]), w["held"], w["via"])
        return {"kind": kind, "key": key, "witness": w, "cycle": cyc}

    def _owner(self, fn, depth=0):
        """the function a construct is attributed to: a private helper with a single calling function is part of that
        function (so that splitting a function into private helpers does not rename a recorded construct)."""
        P = self.P
        F = P.bodies.get(fn)
        if F is None or depth > 4 or F.pub or F.trait_method or F.kind == "closure":
            return fn
        callers = set()
        for c, _ in P.callers().get(fn, []):
            C = P.bodies.get(c)
            callers.add(C.root if C is not None and C.kind == "closure" else c)
        callers.discard(fn)
        if len(callers) != 1:
            return fn
        return self._owner(next(iter(callers)), depth + 1)
