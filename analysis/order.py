"""Engine B — must-precede / must-follow / who-may-call / held-at / constant-operand /
same-guard / flows-to rules over the MIR CFG (DESIGN.md §3.B).

MIR has at most one call per basic block (the terminator), so a *site* is a block."""
import re
from collections import defaultdict

from program import op_place, op_local, is_move
from common import AnchorMissing


def names(t):
    c = t["callee"]
    out = []
    for k in ("path", "rpath"):
        v = c.get(k)
        if v and v not in out:
            out.append(v)
    return out


class M:
    """Call-site matcher: regex (fullmatch) on the callee's declared or resolved path;
    `reach=True` also matches calls to workspace bodies that transitively reach such a callee;
    `where` = extra predicate (body, block, term) -> bool."""

    def __init__(self, pat, reach=False, where=None, label=None, closure_filter=None):
        self.rx = re.compile(pat)
        self.reach = reach
        self.where = where
        self.closure_filter = closure_filter   # (closure Body) -> bool: follow this closure argument?
        self.label = label or pat

    def __repr__(self):
        return "M(%s%s)" % (self.label, ", reach" if self.reach else "")


class Order:
    def __init__(self, P, locks=None):
        self.P = P
        self.L = locks
        self._reach = {}

    # ---- reachability over the call graph ----
    def direct_callees(self, bid):
        b = self.P.bodies[bid]
        out = set()
        for _, t in b.calls():
            kind, tg = self.P.resolve(t["callee"])
            if kind == "ws":
                out.update(tg)
            for n in names(t):
                out.add(n)
        for k in self.P.children.get(bid, []):
            out.add(k)
        return out

    def reach(self, bid):
        """all callee names (workspace body ids and external paths) transitively reachable."""
        if bid in self._reach:
            return self._reach[bid]
        seen = set()
        st = [bid]
        while st:
            x = st.pop()
            if x not in self.P.bodies:
                continue
            for y in self.direct_callees(x):
                if y not in seen:
                    seen.add(y)
                    st.append(y)
        self._reach[bid] = seen
        return seen

    def matches(self, body, b, m):
        t = body.blocks[b]["term"]
        if t["k"] != "call":
            return False
        ok = any(m.rx.fullmatch(n) for n in names(t))
        if t.get("inlined"):
            # the callee's blocks follow (virtual inlining): what it reaches is visible there, site by site
            if ok and m.where is not None:
                ok = bool(m.where(body, b, t))
            return ok
        spliced = t.get("spliced", ())
        if not ok and m.reach == "must":
            # wrapper rule: the callee counts only if *all* its Ok-returning paths perform the effect
            kind, tg = self.P.resolve(t["callee"])
            if kind == "ws" and tg:
                ok = all(self.must_reach(g, m) for g in tg)
            elif kind == "external":
                for a in t["args"]:
                    pl = op_place(a)
                    if pl is None:
                        continue
                    for K in body.locals[pl["l"]].get("closures", []):
                        if K in self.P.bodies and K not in spliced and self.must_reach(K, m):
                            ok = True
        elif not ok and m.reach:
            kind, tg = self.P.resolve(t["callee"])
            if kind == "ws":
                for g in tg:
                    if any(m.rx.fullmatch(n) for n in self.reach(g)):
                        ok = True
                        break
            elif kind == "external":
                # closures handed to an external callee (rayon::join, iterator adaptors) run inside it
                for a in t["args"]:
                    pl = op_place(a)
                    if pl is None:
                        continue
                    for K in body.locals[pl["l"]].get("closures", []):
                        if K in self.P.bodies and K not in spliced and (
                                m.closure_filter is None or m.closure_filter(self.P.bodies[K])) \
                                and (any(m.rx.fullmatch(n) for n in self.reach(K))):
                            ok = True
        if ok and m.where is not None:
            ok = bool(m.where(body, b, t))
        return ok

    def must_reach(self, gid, m, _stack=None):
        """True iff every path of workspace body gid from entry to an Ok-kind exit passes a call matching m
        (directly, or a call to a body for which this holds recursively)."""
        key = (gid, m.rx.pattern, id(m.where))
        cache = self.__dict__.setdefault("_must", {})
        if key in cache:
            return cache[key]
        _stack = _stack or set()
        if gid in _stack or gid not in self.P.bodies:
            return False
        _stack = _stack | {gid}
        G = self.P.bodies[gid]
        direct = M(m.rx.pattern, reach=False, where=m.where, label=m.label)
        asites = []
        for b in G.reachable():
            t = G.blocks[b]["term"]
            if t["k"] != "call":
                continue
            if self.matches(G, b, direct):
                asites.append(b)
                continue
            kind, tg = self.P.resolve(t["callee"])
            if kind == "ws" and tg and all(self.must_reach(h, m, _stack) for h in tg):
                asites.append(b)
            elif kind == "external":
                for a in t["args"]:
                    pl = op_place(a)
                    if pl is not None:
                        for K in G.locals[pl["l"]].get("closures", []):
                            if K in self.P.bodies and self.must_reach(K, m, _stack):
                                asites.append(b)
        res = False
        if asites:
            inn = self.seen_before(G, asites)
            ek = self.exit_kinds(G)
            oks = [b for b, k in ek.items() if k == "ok"]
            if not oks:
                oks = G.return_blocks()
            res = all(inn[b] or b in asites for b in oks)
        cache[key] = res
        return res

    def sites(self, body, m):
        return [b for b in body.reachable() if self.matches(body, b, m)]

    def body(self, bid):
        """the anchored function, with its private helpers virtually inlined (so that moving part of its body into
        a new private function does not hide the construct from the rules)."""
        if bid not in self.P.bodies:
            raise AnchorMissing("anchor function not found: %s" % bid)
        done = self.__dict__.setdefault("_inlined", {})
        if bid not in done:
            from program import inline_helpers
            B, which = inline_helpers(self.P, bid)
            if B is not self.P.bodies[bid] and self.L is not None:
                self.L._held(B)
            done[bid] = B
            self.__dict__.setdefault("_which", {})[bid] = which
        return done[bid]

    def inlined_into(self, bid):
        """ids of the helpers / closures whose blocks are part of Order.body(bid)"""
        self.body(bid)
        return self._which.get(bid, [])

    def covered_by_callers(self, bid):
        """bid is a private helper or closure whose blocks are analysed as part of every function that uses it"""
        F = self.P.bodies[bid]
        if F.kind == "closure":
            par = F.parent
            return par in self.P.bodies and bid in self.inlined_into(par)
        if F.pub or F.trait_method:
            return False
        callers = {c for c, _ in self.P.callers().get(bid, [])} - {bid}
        if not callers:
            return False
        for c in callers:
            C = self.P.bodies[c]
            host = c
            # a call made from a closure is covered if the closure itself is spliced into its parent
            while self.P.bodies[host].kind == "closure":
                par = self.P.bodies[host].parent
                if par not in self.P.bodies or host not in self.inlined_into(par):
                    return False
                host = par
            if bid not in self.inlined_into(host):
                return False
        return True

    def need_sites(self, body, m, floor=1):
        s = self.sites(body, m)
        if len(s) < floor:
            raise AnchorMissing("%s: expected >= %d call site(s) matching %s, found %d" % (body.id, floor, m, len(s)))
        return s

    # ---- exits ----
    def exit_kinds(self, body):
        """block -> 'ok' | 'err' for blocks that assign the return place `_0` (whole)."""
        out = {}
        ret_ty = body.locals[0]["ty"]
        is_result = ret_ty.startswith("core::result::Result<")
        for b in body.reachable():
            blk = body.blocks[b]
            for st in blk["stmts"]:
                if st[0] == "assign" and st[1]["l"] == 0 and not st[1]["p"]:
                    rv = st[2]
                    kind = "ok"
                    if is_result and rv["k"] == "agg" and rv.get("variant") == "Err":
                        kind = "err"
                    elif is_result and rv["k"] == "use" and rv.get("ops") and op_place(rv["ops"][0]) is not None:
                        # `return helper(..)` with the helper inlined: the variant is known per copy of the block
                        if blk.get("known", {}).get(op_place(rv["ops"][0])["l"]) == "Err":
                            kind = "err"
                    out[b] = kind
            t = blk["term"]
            if t["k"] == "call" and t["dest"]["l"] == 0 and not t["dest"]["p"]:
                kind = "ok"
                if any(n.endswith("FromResidual<core::result::Result<core::convert::Infallible, E>>>::from_residual")
                       or "from_residual" in n for n in names(t)):
                    kind = "err"
                out[b] = kind
        return out

    # ---- precedes ----
    def seen_before(self, body, a_blocks):
        """block -> True iff on every path from entry to the *terminator* of the block an
        A-site terminator has already executed (strictly before)."""
        rpo = body.reachable()
        preds = body.preds()
        aset = set(a_blocks)
        inn = {b: True for b in rpo}
        inn[0] = False
        changed = True
        while changed:
            changed = False
            for b in rpo:
                if b == 0:
                    continue
                v = True
                for p in preds[b]:
                    if p not in inn:
                        continue
                    v = v and (inn[p] or p in aset)
                if v != inn[b]:
                    inn[b] = v
                    changed = True
        return inn

    def precedes(self, body, a, bm):
        """-> list of B-site blocks NOT preceded by A on every path (empty = rule holds)."""
        a_blocks = self.sites(body, a)
        inn = self.seen_before(body, a_blocks)
        bad = []
        for b in self.sites(body, bm):
            if not inn[b]:
                bad.append(b)
        return bad

    def never_after(self, body, a, bm):
        """-> B-site blocks that can execute after an A-site on some path (may-analysis)."""
        rpo = body.reachable()
        preds = body.preds()
        aset = set(self.sites(body, a))
        may = {b: False for b in rpo}
        changed = True
        while changed:
            changed = False
            for b in rpo:
                v = any((may.get(p, False) or p in aset) for p in preds[b])
                if v != may[b]:
                    may[b] = v
                    changed = True
        return [b for b in self.sites(body, bm) if may[b]]

    def typestate(self, body, init, gen_blocks, kill_blocks):
        """must-analysis of a boolean fact: True after a gen site, False after a kill site, AND at
        joins, `init` at entry.  -> value at the *terminator* of each block (before its own effect)."""
        rpo = body.reachable()
        preds = body.preds()
        gen, kill = set(gen_blocks), set(kill_blocks)

        def out(b, v):
            if b in kill:
                return False
            if b in gen:
                return True
            return v
        inn = {b: True for b in rpo}
        inn[0] = init
        changed = True
        while changed:
            changed = False
            for b in rpo:
                if b == 0:
                    continue
                v = True
                for p in preds[b]:
                    if p in inn:
                        v = v and out(p, inn[p])
                if v != inn[b]:
                    inn[b] = v
                    changed = True
        return inn

    def scope_of(self, fn):
        """fn plus the non-public workspace functions of the same impl/module that it (transitively) calls:
        the region a maintainer may move parts of fn's body into (private helpers)."""
        P = self.P
        prefix = fn.rsplit("::", 1)[0] + "::"
        out = [fn]
        seen = {fn}
        work = [fn]
        while work:
            x = work.pop()
            for _, t in P.bodies[x].calls():
                kind, tg = P.resolve(t["callee"])
                if kind != "ws":
                    continue
                for g in tg:
                    gb = P.bodies[g]
                    if g not in seen and g.startswith(prefix) and not gb.pub and gb.kind != "closure":
                        seen.add(g)
                        out.append(g)
                        work.append(g)
        return out

    def calls_into(self, body, b, fns):
        t = body.blocks[b]["term"]
        if t["k"] != "call":
            return False
        kind, tg = self.P.resolve(t["callee"])
        return kind == "ws" and any(g in fns for g in tg)

    def failure_region(self, body, risky):
        """blocks whose terminator can execute while the Result of a `risky` call is unchecked or failed."""
        return self.after_failure(body, risky, None)

    def after_failure(self, body, risky, target):
        """target sites that can execute while the Result of a `risky` call is still unchecked or on its
        failure edge (i.e. the target does not depend on the risky call having succeeded).
        target=None: every such block (calls, drops, returns)."""
        from program import forward, op_local
        rs = set(self.sites(body, risky))
        ts = self.sites(body, target) if target is not None else None
        if not rs or (ts is not None and not ts):
            return []
        hit = set()
        region = set()

        def transfer(b, st):
            st = set(st)
            blk = body.blocks[b]
            for s in blk["stmts"]:
                if s[0] == "assign" and s[2]["k"] == "use" and s[2]["ops"] and not s[1]["p"]:
                    ol = op_local(s[2]["ops"][0])
                    if ol in st:
                        st.add(s[1]["l"])
                        if is_move(s[2]["ops"][0]):
                            st.discard(ol)
                elif s[0] == "assign" and s[2]["k"] == "agg" and s[2].get("variant") == "Err" and not s[1]["p"] \
                        and "FAILED" in st:
                    # the failure is packaged into a Result again (`Err(e) => return Err(..)` of a helper that
                    # was virtually inlined): it is pending on that value, not a property of the path any more
                    st.discard("FAILED")
                    st.add(s[1]["l"])
            t = blk["term"]
            if st and b not in rs:
                region.add(b)
            if t["k"] == "call":
                if ts is not None and b in ts and b not in rs and st:
                    hit.add(b)
                nm = names(t)
                dl = t["dest"]["l"] if not t["dest"]["p"] else None
                if any("Try>::branch" in n for n in nm) and t["args"]:
                    al = op_local(t["args"][0])
                    if al in st and dl is not None:
                        st.discard(al)
                        st.add(dl)
                elif any(n.endswith("FromResidual::from_residual") or "::from_residual" in n for n in nm) and \
                        "FAILED" in st and dl is not None:
                    st.discard("FAILED")
                    st.add(dl)
                elif b in rs and dl is not None and body.locals[dl]["ty"].startswith("core::result::Result<"):
                    st.add(dl)
            elif t["k"] == "switch":
                dl = op_local(t["op"])
                base = None
                for d in body.defs().get(dl, []) if dl is not None else []:
                    if d[0] == "assign" and d[3]["k"] == "discr" and not d[3]["place"]["p"]:
                        base = d[3]["place"]["l"]
                if base in st:
                    rest = set(st)
                    rest.discard(base)
                    out = {}
                    listed = {v for v, _ in t["targets"]}
                    for v, tb in t["targets"]:
                        out[tb] = frozenset(rest) if v == "0" else frozenset(rest | {"FAILED"})
                    o = frozenset(rest | {"FAILED"}) if listed != {"1"} else frozenset(rest)
                    if t["otherwise"] in out:
                        o = out[t["otherwise"]] | o
                    out[t["otherwise"]] = o
                    return out
            return frozenset(st)

        forward(body, frozenset(), transfer, lambda a, b: a | b)
        return sorted(hit) if ts is not None else sorted(region)

    def can_reach(self, body, b, targets):
        """True iff some block in `targets` is reachable from the successors of b."""
        tset = set(targets)
        seen = set()
        st = list(body.succ(b))
        while st:
            x = st.pop()
            if x in seen:
                continue
            seen.add(x)
            if x in tset:
                return True
            st.extend(body.succ(x))
        return False

    # ---- followed_by ----
    def followed_by(self, body, a, bm, exits="ok"):
        """-> A-site blocks from which some path reaches a selected exit without passing a
        B-site. exits: 'ok' (success returns only) or 'any'."""
        rpo = body.reachable()
        ek = self.exit_kinds(body)
        bset = set(self.sites(body, bm))
        # post[b]: every path starting *after* b's terminator passes B before a selected exit
        post = {b: True for b in rpo}

        def exit_val(b):
            # b assigns _0: selected exit -> False (no B seen), err exit when exits=='ok' -> True
            k = ek.get(b)
            if k is None:
                return None
            if exits == "ok" and k == "err":
                return True
            return False

        changed = True
        it = 0
        while changed:
            changed = False
            it += 1
            for b in reversed(rpo):
                succ = body.succ(b)
                t = body.blocks[b]["term"]
                if t["k"] == "return":
                    v = False if not ek else True
                elif not succ:
                    v = True   # diverges (panic/unreachable)
                else:
                    v = True
                    for s in succ:
                        sv = self._entry_val(body, s, post, bset, exit_val)
                        v = v and sv
                if v != post[b]:
                    post[b] = v
                    changed = True
            if it > 200:
                break
        bad = []
        for a_b in self.sites(body, a):
            if a_b in bset:
                continue
            ev = exit_val(a_b)
            if ev is False and a_b not in bset:
                bad.append(a_b)
                continue
            if not post[a_b]:
                bad.append(a_b)
        return bad

    def _entry_val(self, body, s, post, bset, exit_val):
        """value of 'B on all paths' when control enters block s (s's terminator included)."""
        if s in bset:
            return True
        ev = exit_val(s)
        if ev is not None:
            return ev
        return post[s]

    # ---- who may call ----
    def callers_of(self, m):
        """[(body id, root fn id, block)] of every call site matching m in all bodies."""
        out = []
        for body in self.P.bodies.values():
            for b in body.reachable():
                if self.matches(body, b, m):
                    out.append((body.id, body.root, b))
        return out

    def only_callers(self, m, allowed_roots):
        """-> offending (body id, block) whose root function is not in allowed_roots."""
        bad = []
        n = 0
        for bid, root, b in self.callers_of(m):
            n += 1
            if root not in allowed_roots and bid not in allowed_roots and not self.private_part_of(root, allowed_roots):
                bad.append((bid, b))
        return bad, n

    def private_part_of(self, fn, allowed_roots, _stack=()):
        """fn is a non-public function all of whose callers are allowed roots or, recursively, such private parts:
        code split off an allowed function into private helpers is still that function's code."""
        F = self.P.bodies.get(fn)
        if F is None or F.pub or F.trait_method or fn in _stack or len(_stack) > 6:
            return False
        callers = {c for c, _ in self.P.callers().get(fn, [])}
        callers = {self.P.bodies[c].root if c in self.P.bodies else c for c in callers}
        callers.discard(fn)
        if not callers:
            return False
        return all(c in allowed_roots or self.private_part_of(c, allowed_roots, _stack + (fn,)) for c in callers)

    # ---- held-at ----
    def held_classes(self, body, b):
        return {(c, m) for c, m, _ in self.L.held_items(body, b)}

    # ---- operands ----
    def const_of(self, body, op, depth=0):
        """constant value (decimal string) of an operand, following single-def copies and folding
        integer binary operations on constants; else None."""
        k = op.get("k")
        if k is not None:
            return k.get("v")
        if depth > 8:
            return None
        l = op_local(op)
        if op_place(op)["p"]:
            return None
        ds = body.defs().get(l, [])
        if len(ds) == 1 and ds[0][0] == "assign":
            rv = ds[0][3]
            if rv["k"] in ("use", "cast") and rv["ops"]:
                return self.const_of(body, rv["ops"][0], depth + 1)
            if rv["k"] == "bin":
                a = self.const_of(body, rv["ops"][0], depth + 1)
                b = self.const_of(body, rv["ops"][1], depth + 1)
                if a is None or b is None:
                    return None
                a, b = int(a), int(b)
                f = {"BitOr": lambda: a | b, "BitAnd": lambda: a & b, "Add": lambda: a + b, "Sub": lambda: a - b,
                     "Mul": lambda: a * b, "BitXor": lambda: a ^ b, "Shl": lambda: a << b,
                     "AddWithOverflow": lambda: a + b, "MulWithOverflow": lambda: a * b}.get(rv["op"])
                return str(f()) if f else None
        return None

    def variant_of(self, body, op, depth=0):
        """enum variant name of an operand built by a fieldless aggregate (e.g. Ordering::Release)."""
        if depth > 6 or op_place(op) is None:
            return None
        ds = body.defs().get(op_local(op), [])
        if len(ds) == 1 and ds[0][0] == "assign":
            rv = ds[0][3]
            if rv["k"] == "agg" and rv.get("variant"):
                return rv["variant"]
            if rv["k"] in ("use", "cast") and rv["ops"]:
                return self.variant_of(body, rv["ops"][0], depth + 1)
        return None

    def root_local(self, body, op, depth=0):
        """the named local an operand is borrowed / copied from (for position-free keys)."""
        p = op_place(op)
        if p is None or depth > 8:
            return None
        l = p["l"]
        if l in body.name_of:
            return l
        for d in body.defs().get(l, []):
            if d[0] == "assign":
                rv = d[3]
                if rv["k"] in ("ref", "rawptr"):
                    return self.root_local(body, {"c": rv["place"]}, depth + 1)
                if rv["k"] in ("use", "cast") and rv["ops"]:
                    return self.root_local(body, rv["ops"][0], depth + 1)
            elif d[0] == "call" and d[2]["args"]:
                return self.root_local(body, d[2]["args"][0], depth + 1)
        return l

    def guard_local_of(self, body, op, depth=0):
        """the guard-carrying local a `&*guard`-style operand derives from, else None."""
        if depth > 8:
            return None
        p = op_place(op)
        if p is None:
            return None
        l = p["l"]
        if l in self.L.owned.get(getattr(body, "hkey", body.id), {}):
            return l
        for d in body.defs().get(l, []):
            if d[0] == "assign":
                rv = d[3]
                if rv["k"] in ("ref", "rawptr"):
                    r = self.guard_local_of(body, {"c": rv["place"]}, depth + 1)
                    if r is not None:
                        return r
                elif rv["k"] in ("use", "cast") and rv["ops"]:
                    r = self.guard_local_of(body, rv["ops"][0], depth + 1)
                    if r is not None:
                        return r
            elif d[0] == "call":
                t = d[2]
                if any(n.endswith("::deref") or n.endswith("::deref_mut") for n in names(t)) and t["args"]:
                    r = self.guard_local_of(body, t["args"][0], depth + 1)
                    if r is not None:
                        return r
        return None

    def result_origin(self, body, op, depth=0):
        """callee names whose *result* an operand carries (through moves, field/downcast
        projections, Try::branch, map_err/into conversions) — not the callee's arguments."""
        if depth > 12:
            return set()
        p = op_place(op)
        if p is None:
            return set()
        out = set()
        for d in body.defs().get(p["l"], []):
            if d[0] == "assign":
                rv = d[3]
                for o in rv.get("ops", [])[:1]:
                    out |= self.result_origin(body, o, depth + 1)
                if "place" in rv:
                    out |= self.result_origin(body, {"c": rv["place"]}, depth + 1)
            elif d[0] == "call":
                t = d[2]
                nm = names(t)
                if any(("Try>::branch" in n) or n.endswith("::map_err") or n.endswith("::into")
                       or n.endswith("::from") or n.endswith("::ok_or") or n.endswith("::ok_or_else") for n in nm) \
                        and t["args"]:
                    out |= self.result_origin(body, t["args"][0], depth + 1)
                else:
                    out.update(nm)
        return out

    def slice_back(self, body, op, maxn=600):
        """backward data-dependence slice of an operand (field-sensitive through tuple/struct
        aggregates and moves): -> dict(calls=callee names, params=param locals, consts=const
        names/values, locals, fields=field names projected on the way)."""
        res = {"calls": set(), "params": set(), "consts": set(), "locals": set(), "fields": set(), "full": set()}
        work = [(op, ())]
        seen = set()
        n = 0
        while work and n < maxn:
            n += 1
            o, pend = work.pop()
            k = o.get("k")
            if k is not None:
                if k.get("name"):
                    res["consts"].add(k["name"])
                if k.get("v") is not None:
                    res["consts"].add(k["v"])
                continue
            p = op_place(o)
            l = p["l"]
            proj = tuple(_pkey(e) for e in p["p"]) + tuple(pend)
            for e in p["p"]:
                if isinstance(e, list) and e[0] == "f":
                    res["fields"].add(e[2])
                if isinstance(e, list) and e[0] == "i":
                    work.append(({"c": {"l": e[1], "p": []}}, ()))
            # leading field path (skipping derefs/downcasts) still to be resolved at the definition
            fpath = tuple(e for e in proj if e != "*" and not (isinstance(e, tuple) and e[0] == "d"))
            key = (l, fpath)
            if key in seen:
                continue
            seen.add(key)
            res["locals"].add(l)
            if 1 <= l <= body.arg_count:
                res["params"].add(l)
            # the value of an inlined helper call: its definition is the assignment in the callee's return block, but
            # the helper's name still belongs to the slice
            im = body.__dict__.get("_inl_dest") if hasattr(body, "__dict__") else None
            if im is None:
                im = _inlined_dests(body)
            for t_ in im.get(l, ()):
                for nme in names(t_):
                    res["calls"].add(nme)
            for d in body.defs().get(l, []):
                if d[0] == "assign":
                    rv = d[3]
                    kk = rv["k"]
                    if kk == "agg" and fpath and isinstance(fpath[0], tuple) and fpath[0][0] == "f" \
                            and not rv.get("closure") and fpath[0][1] < len(rv["ops"]):
                        work.append((rv["ops"][fpath[0][1]], fpath[1:]))
                    elif kk in ("use", "cast") and rv["ops"]:
                        work.append((rv["ops"][0], fpath))
                    elif kk in ("ref", "rawptr"):
                        work.append(({"c": rv["place"]}, fpath))
                    else:
                        for oo in rv.get("ops", []):
                            work.append((oo, ()))
                        if "place" in rv:
                            work.append(({"c": rv["place"]}, ()))
                elif d[0] == "call":
                    t = d[2]
                    for nme in names(t):
                        res["calls"].add(nme)
                    if t["callee"].get("full"):
                        res["full"].add(t["callee"]["full"])
                    for a in t["args"]:
                        work.append((a, ()))
            # field-wise definitions (dest with projection) of the same local
            for b in body.reachable():
                for st in body.blocks[b]["stmts"]:
                    if st[0] == "assign" and st[1]["l"] == l and st[1]["p"]:
                        dp = tuple(_pkey(e) for e in st[1]["p"] if e != "*")
                        dp = tuple(e for e in dp if not (isinstance(e, tuple) and e[0] == "d"))
                        if fpath and dp and dp[0] != fpath[0]:
                            continue
                        for oo in st[2].get("ops", []):
                            work.append((oo, ()))
                        if "place" in st[2]:
                            work.append(({"c": st[2]["place"]}, ()))
        return res


ORDERED_ITER = re.compile(r"alloc::collections::btree::(map|set)::(Iter|IntoIter|Keys|IntoKeys|Range|Values|IntoValues)"
                          r"(Mut)?<(?:'_, )?([^,>]+)")
SEQ_ITER = re.compile(r"(core::slice::iter::Iter(Mut)?|alloc::vec::into_iter::IntoIter|alloc::vec::drain::Drain)<(?:'_, )?(.+)")
SORT_CALL = re.compile(r"core::slice::<impl \[T\]>::sort\w*|alloc::slice::<impl \[T\]>::sort\w*")


def iteration_order(order, body, op):
    """How the values flowing into `op` are enumerated: list of ('btree', key type) for ordered-map iteration,
    ('sorted-seq', element type) / ('seq', element type) for slice/Vec iteration with / without a sort call in the body.
    The backward walk over the operand's data dependences stops at the NEAREST enumerator: an `Iterator::next` call,
    or the binding of a spliced closure's parameter to the receiver of its combinator (`iter.fold(.., |acc, x| ..)`)."""
    has_sort = any(t["k"] == "call" and any(SORT_CALL.fullmatch(n) for n in names(t))
                   for t in (body.blocks[b]["term"] for b in body.reachable()))
    cands = []
    seen = set()
    work = [op]
    n = 0
    while work and n < 400:
        n += 1
        o = work.pop()
        pl = op_place(o)
        if pl is None:
            continue
        l = pl["l"]
        for e in pl["p"]:
            if isinstance(e, list) and e[0] == "i":
                work.append({"c": {"l": e[1], "p": []}})
        if l in seen:
            continue
        seen.add(l)
        for d in body.defs().get(l, []):
            if d[0] == "assign":
                st = body.blocks[d[1]]["stmts"][d[2]]
                rv = d[3]
                if st[-1] == "<closure-param>":
                    src = op_place(rv["ops"][0])
                    ty = body.locals[src["l"]]["ty"]
                    if ORDERED_ITER.search(ty) or SEQ_ITER.search(ty):
                        cands.append(ty)
                        continue
                for oo in rv.get("ops", []):
                    work.append(oo)
                if "place" in rv:
                    work.append({"c": rv["place"]})
            else:
                t = d[2]
                full = t["callee"].get("full") or ""
                if re.search(r"Iterator>::next(_back)?$", full) or re.search(r"Iterator>::next(_back)?::<", full):
                    cands.append(full)
                    continue
                for a_ in t["args"]:
                    work.append(a_)
    out = set()
    for full in cands:
        m = ORDERED_ITER.search(full)
        if m:
            out.add(("btree", m.group(4)))
            continue
        m = SEQ_ITER.search(full)
        if m:
            out.add(("sorted-seq" if has_sort else "seq", m.group(3)))
        else:
            out.add(("other", full))
    return sorted(out)


_INL_CACHE = {}


def _inlined_dests(body):
    key = id(body)
    m = _INL_CACHE.get(key)
    if m is None or m[0] is not body:
        d = {}
        for b in body.reachable():
            t = body.blocks[b]["term"]
            if t["k"] == "call" and t.get("inlined") and not t["dest"]["p"]:
                d.setdefault(t["dest"]["l"], []).append(t)
        _INL_CACHE[key] = (body, d)
        m = _INL_CACHE[key]
    return m[1]


def _pkey(e):
    if isinstance(e, list):
        if e[0] == "f":
            return ("f", e[1])
        if e[0] == "d":
            return ("d", e[1])
        return (e[0],)
    return e
