"""Thorough tier extras: type-level witnesses, mutant corpus, seeded-change corpus (DESIGN.md §2.4)."""
import glob
import json
import os
import re
import shutil
import subprocess
import sys
import tempfile

VERIF = os.path.dirname(os.path.dirname(os.path.abspath(__file__)))
WITNESS_PROPS = ("C10", "C13")


def run_witnesses(chk, repo="/repo"):
    src = os.path.join(VERIF, "witness")
    tmp = tempfile.mkdtemp(prefix="verif-witness-")
    try:
        shutil.copytree(src, os.path.join(tmp, "w"), ignore=shutil.ignore_patterns("target"))
        ct = os.path.join(tmp, "w", "Cargo.toml")
        s = open(ct).read().replace("/repo/crates/rawdb", os.path.join(repo, "crates", "rawdb"))
        open(ct, "w").write(s)
        shutil.copy(os.path.join(repo, "Cargo.lock"), os.path.join(tmp, "w", "Cargo.lock"))
        env = dict(os.environ, CARGO_NET_OFFLINE="true", CARGO_TARGET_DIR=os.path.join(tmp, "tgt"))
        r = subprocess.run(["cargo", "+nightly", "test", "--doc", "--offline"], cwd=os.path.join(tmp, "w"), env=env,
                           capture_output=True, text=True, timeout=1800)
        out = r.stdout + r.stderr
        fails = re.findall(r"test src/lib.rs - (\w+) \(line \d+\) - compile fail \.\.\. (\w+)", out)
        twins = re.findall(r"test src/lib.rs - (\w+) \(line \d+\) - compile \.\.\. (\w+)", out)
        if len(fails) < 6 or len(twins) < 6:
            raise RuntimeError("witness doc-tests did not run as expected:\n" + out[-1500:])
        for name, res in sorted(fails):
            chk.oblige("W %s: violating program is rejected by the compiler with the named error code" % name, res == "ok",
                       key="W|%s|compile_fail" % name, msg="code outside rawdb can now mutate allocator state / metadata "
                                                          "or forge a Reader (%s)" % name)
        for name, res in sorted(twins):
            chk.oblige("W %s: compiling twin (differs only in the offending line) builds" % name, res == "ok",
                       key="W|%s|twin" % name, msg="witness twin no longer compiles: the witness is vacuous")
    finally:
        shutil.rmtree(tmp, ignore_errors=True)


def run_corpus(pid, chk):
    pat = os.path.join(VERIF, "mutants", pid.lower() + "-*.patch")
    muts = sorted(glob.glob(pat))
    if muts:
        r = subprocess.run([os.path.join(VERIF, "tools", "run_mutants.py"), "--jobs", "4", pid.lower() + "-"],
                           capture_output=True, text=True, timeout=7200)
        for line in r.stdout.splitlines():
            m = re.match(r"^(\S+)\s+(\S+\.patch)", line)
            if m:
                chk.obligations.append(("mutant %s: %s" % (m.group(2), m.group(1)), m.group(1) == "DETECTED", None))
                if m.group(1) != "DETECTED":
                    chk.control("mutant %s detected" % m.group(2), False)
    seeds = sorted(d for d in glob.glob(os.path.join(VERIF, "seeded", pid + "-*")) if os.path.isdir(d))
    if seeds:
        r = subprocess.run([os.path.join(VERIF, "tools", "run_seeded.py"), "--jobs", "4", pid + "-"],
                           capture_output=True, text=True, timeout=7200)
        for d in seeds:
            meta = json.load(open(os.path.join(d, "meta.json")))
            det = json.load(open(os.path.join(d, "detect.json"))) if os.path.exists(os.path.join(d, "detect.json")) else {}
            name = os.path.basename(d)
            if meta.get("expected_miss"):
                chk.obligations.append(("seeded change %s: not detectable by this family (%s)" % (
                    name, meta["expected_miss"]), True, None))
                continue
            ok = bool(det.get("detected"))
            chk.obligations.append(("seeded change %s detected" % name, ok, None))
            if not ok:
                chk.control("seeded change %s detected" % name, False)
    # negative controls: behaviour-preserving refactorings must stay silent
    ben = sorted(glob.glob(os.path.join(VERIF, "benign", "*.patch")))
    if ben:
        r = subprocess.run([os.path.join(VERIF, "tools", "run_benign.py"), "--prop", pid], capture_output=True, text=True,
                           timeout=7200)
        for line in r.stdout.splitlines():
            m = re.match(r"^(\S+\.patch)\s+(SILENT|ALARM.*)$", line)
            if m:
                ok = m.group(2) == "SILENT"
                chk.obligations.append(("benign refactoring %s: check stays silent" % m.group(1), ok, None))
                if not ok:
                    chk.control("benign refactoring %s stays silent (%s)" % (m.group(1), m.group(2)[:120]), False)
    chk.cov["benign_refactorings"] = len(ben)
    chk.cov["mutants"] = len(muts)
    chk.cov["seeded_changes"] = len(seeds)
