"""Engine C — refusal atomicity: no error exit after an observable mutation (DESIGN.md §3.C).

Per body: provenance of `&mut` references (from a `&mut` parameter, from the deref of a write
guard, or owned), mutation sites, error exits with the variants they can carry, and a forward
dataflow "mutated so far" that is sensitive to the `?` shape (a callee's own mutation is applied
on the Continue edge only, unless the callee can itself fail dirty)."""
import json
import os
import re
from collections import defaultdict

from program import op_place, op_local, is_move, forward
from order import names

RULES = os.path.join(os.path.dirname(os.path.dirname(os.path.abspath(__file__))), "rules")
ERR_ADTS = ("rawdb::error::Error", "vecdb::error::Error", "verif_fixtures::E")


class Atom:
    def __init__(self, P, L):
        self.P = P
        self.L = L
        j = json.load(open(os.path.join(RULES, "atom.json")))
        self.effects = [re.compile(p) for p in j["external_effects"]["patterns"]]
        self.not_obs = {k for k in j["not_observable"] if not k.startswith("_")}
        self.ext_pure = [re.compile(p) for p in j["external_not_mutating"]["patterns"]]
        self.prov = {}
        self.MUTP = defaultdict(set)     # body -> param indices it may mutate through
        self.MUTG = defaultdict(bool)    # body -> may mutate global/guarded state
        self.MUTW = {}                   # body -> example mutation site description
        self.ERRV = defaultdict(set)     # body -> variants it may return
        self.DIRTY = defaultdict(dict)   # body -> {variant: witness}
        self._solved = False

    # ------------------------------------------------------------------ provenance
    def provenance(self, F):
        if F.id in self.prov:
            return self.prov[F.id]
        owned = self.L.owned.get(F.id, {})
        prov = defaultdict(set)
        for k in range(1, F.arg_count + 1):
            L = F.locals[k]
            if L.get("mutref") or "&mut" in L["ty"]:
                prov[k].add(("param", k))
        if F.kind == "closure":
            prov[1].add(("param", 1))
        changed = True
        rounds = 0
        while changed and rounds < 30:
            changed = False
            rounds += 1
            for l, ds in F.defs().items():
                new = set()
                for d in ds:
                    if d[0] == "assign":
                        rv = d[3]
                        k = rv["k"]
                        if k in ("ref", "rawptr"):
                            base = rv["place"]["l"]
                            new |= prov[base]
                            if base in owned and any(m in ("W", "M") for _, m in owned[base]) and rv.get("mut"):
                                for c, m in owned[base]:
                                    if m in ("W", "M"):
                                        new.add(("guard", c))
                        elif k in ("use", "cast", "repeat", "agg"):
                            for o in rv.get("ops", []):
                                ol = op_local(o)
                                if ol is not None:
                                    new |= prov[ol]
                    elif d[0] == "call":
                        t = d[2]
                        nm = names(t)
                        dty = F.locals[l]["ty"]
                        if any(n.endswith("::deref_mut") for n in nm) and t["args"]:
                            al = op_local(t["args"][0])
                            if al is not None:
                                new |= prov[al]
                        elif "&mut" in dty or "Mut<" in dty or "*mut" in dty:
                            for a in t["args"]:
                                al = op_local(a)
                                if al is not None:
                                    new |= prov[al]
                if not new <= prov[l]:
                    prov[l] |= new
                    changed = True
        self.prov[F.id] = prov
        return prov

    # ------------------------------------------------------------------ mutation at a site
    def _is_effect(self, nm):
        return any(rx.fullmatch(n) for rx in self.effects for n in nm)

    def _ext_pure(self, nm):
        return any(rx.fullmatch(n) for rx in self.ext_pure for n in nm)

    def call_roots(self, F, t):
        """roots through which this call may mutate: set of ('param',k) | ('guard',c) | ('global',) and a description."""
        nm = names(t)
        if any(n in self.not_obs for n in nm):
            return set()
        prov = self.provenance(F)
        kind, tg = self.P.resolve(t["callee"])
        roots = set()
        if kind == "ws":
            tg = [g for g in tg if g not in self.not_obs]
            for g in tg:
                if self.MUTG[g]:
                    roots.add(("global",))
                for k in self.MUTP[g]:
                    if k - 1 < len(t["args"]):
                        al = op_local(t["args"][k - 1])
                        if al is not None:
                            roots |= prov[al]
            return roots
        if kind == "external":
            if self._is_effect(nm):
                return {("global",)}
            if self._ext_pure(nm):
                return set()
            for a in t["args"]:
                al = op_local(a)
                if al is None:
                    continue
                ty = F.locals[al]["ty"]
                if ("&mut" in ty or "*mut" in ty or F.locals[al].get("closures")) and prov[al]:
                    roots |= prov[al]
            # closures handed to an external callee run inside it
            for a in t["args"]:
                al = op_local(a)
                if al is None:
                    continue
                for K in F.locals[al].get("closures", []):
                    if K in self.P.bodies:
                        if self.MUTG[K]:
                            roots.add(("global",))
                        if 1 in self.MUTP[K]:
                            roots |= prov[al]
            return roots
        return roots

    def stmt_roots(self, F, st):
        if st[0] == "assign":
            d = st[1]
            if "*" in d["p"]:
                return set(self.provenance(F)[d["l"]])
        elif st[0] == "copy_nonoverlapping":
            return {("global",)}
        return set()

    # ------------------------------------------------------------------ error variants
    def variants_of(self, F, op, depth=0, seen=None):
        """variant names an error-valued (or Result-valued) operand may carry."""
        if depth > 14:
            return {"?"}
        p = op_place(op)
        if p is None:
            return set()
        seen = seen if seen is not None else set()
        l = p["l"]
        if l in seen:
            return set()
        seen.add(l)
        if 1 <= l <= F.arg_count:
            return {"?param"}
        out = set()
        for d in F.defs().get(l, []):
            if d[0] == "assign":
                rv = d[3]
                if rv["k"] == "agg":
                    if rv.get("adt") in ERR_ADTS:
                        if rv["variant"] == "RawDB" and rv["ops"]:
                            out |= self.variants_of(F, rv["ops"][0], depth + 1, seen) or {"RawDB"}
                        else:
                            out.add(rv["variant"])
                    elif rv.get("adt") == "core::result::Result" and rv.get("variant") == "Err":
                        for o in rv["ops"]:
                            out |= self.variants_of(F, o, depth + 1, seen)
                    elif rv.get("adt") in ("core::ops::control_flow::ControlFlow",):
                        for o in rv["ops"]:
                            out |= self.variants_of(F, o, depth + 1, seen)
                    else:
                        for o in rv.get("ops", []):
                            out |= self.variants_of(F, o, depth + 1, seen)
                elif rv["k"] in ("use", "cast"):
                    for o in rv["ops"]:
                        out |= self.variants_of(F, o, depth + 1, seen)
                elif rv["k"] in ("ref",):
                    out |= self.variants_of(F, {"c": rv["place"]}, depth + 1, seen)
            elif d[0] == "call":
                t = d[2]
                nm = names(t)
                if any(("Try>::branch" in n) or n.endswith("::from_residual") or n.endswith("::into")
                       or n.endswith("::from") or n.endswith("::map_err") or n.endswith("::ok_or")
                       or n.endswith("::ok_or_else") or n.endswith("::transpose") or n.endswith("::map")
                       or n.endswith("::and_then") for n in nm):
                    for a in t["args"]:
                        pl = op_place(a)
                        if pl is None:
                            continue
                        aty = F.locals[pl["l"]]["ty"]
                        if "std::io::error::Error" in aty and "Result" not in aty:
                            out.add("IO")
                        for K in F.locals[pl["l"]].get("closures", []):
                            out |= self._closure_variants(K)
                        out |= self.variants_of(F, a, depth + 1, seen)
                    dty = F.locals[l]["ty"]
                    if "std::io::error::Error" in dty:
                        out.add("IO")
                    continue
                kind, tg = self.P.resolve(t["callee"])
                if kind == "ws":
                    for g in tg:
                        out |= self.ERRV[g]
                else:
                    dty = F.locals[l]["ty"]
                    if "std::io::error::Error" in dty:
                        out.add("IO")
                    elif "TryLockError" in dty:
                        out.add("TryLock")
                    for a in t["args"]:
                        pl = op_place(a)
                        if pl is not None:
                            for K in F.locals[pl["l"]].get("closures", []):
                                out |= self._closure_variants(K)
        return out

    def _closure_variants(self, K):
        Kb = self.P.bodies.get(K)
        if Kb is None:
            return set()
        out = set()
        for b in Kb.reachable():
            for st in Kb.blocks[b]["stmts"]:
                if st[0] == "assign" and st[2]["k"] == "agg" and st[2].get("adt") in ERR_ADTS:
                    out.add(st[2]["variant"])
        return out | self.ERRV[K]

    def origin_callees(self, F, op):
        """workspace callees whose *result* an operand carries (through ?, moves, conversions)."""
        from order import Order
        o = Order(self.P, self.L)
        out = set()
        for n in o.result_origin(F, op):
            if n in self.P.bodies:
                out.add(n)
            else:
                for g in self.P.cha(n):
                    out.add(g)
        return out

    # ------------------------------------------------------------------ per-body analysis
    def _translate(self, F, t, groots):
        """callee roots -> roots of F at this call site."""
        prov = self.provenance(F)
        out = set()
        for r in groots:
            if r[0] == "param":
                k = r[1]
                if k - 1 < len(t["args"]):
                    al = op_local(t["args"][k - 1])
                    if al is not None:
                        out |= {x if x[0] == "param" else ("global",) for x in prov[al]}
            else:
                out.add(("global",))
        return out

    def _callee_dirty(self, F, t_or_none, callees, site_args_term):
        """{variant: (roots-in-F, after, at)} contributed by dirty failures of callees."""
        out = {}
        for g in callees:
            for v, (groots, after, at) in self.DIRTY[g].items():
                if site_args_term is not None:
                    fr = self._translate(F, site_args_term, groots)
                else:
                    fr = {("global",)} if any(r[0] != "param" for r in groots) else set()
                if fr:
                    cur = out.get(v)
                    if cur is None:
                        out[v] = (set(fr), "%s (fails after %s)" % (_short(g), after), at)
                    else:
                        cur[0].update(fr)
        return out

    def _origin_terms(self, F, op, depth=0, seen=None):
        """call terminators whose result an operand carries."""
        if depth > 12:
            return []
        p = op_place(op)
        if p is None:
            return []
        seen = seen if seen is not None else set()
        if p["l"] in seen:
            return []
        seen.add(p["l"])
        out = []
        for d in F.defs().get(p["l"], []):
            if d[0] == "assign":
                rv = d[3]
                for o in rv.get("ops", [])[:1]:
                    out += self._origin_terms(F, o, depth + 1, seen)
                if "place" in rv:
                    out += self._origin_terms(F, {"c": rv["place"]}, depth + 1, seen)
            elif d[0] == "call":
                t = d[2]
                nm = names(t)
                if any(("Try>::branch" in n) or n.endswith("::map_err") or n.endswith("::into") or n.endswith("::from")
                       or n.endswith("::ok_or") or n.endswith("::ok_or_else") or n.endswith("::from_residual")
                       for n in nm) and t["args"]:
                    out += self._origin_terms(F, t["args"][0], depth + 1, seen)
                else:
                    out.append(t)
        return out

    def analyze(self, F):
        """-> (mut roots, errv, dirty{variant: (roots, after, at)}, first-mutation description)"""
        site_roots = {}
        for b in F.reachable():
            blk = F.blocks[b]
            for i, st in enumerate(blk["stmts"]):
                r = self.stmt_roots(F, st)
                if r:
                    site_roots[(b, i)] = {x if x[0] == "param" else ("global",) for x in r}
            t = blk["term"]
            if t["k"] == "call":
                r = self.call_roots(F, t)
                if r:
                    site_roots[(b, "t")] = {x if x[0] == "param" else ("global",) for x in r}
        mut = set()
        mutw = None
        for key in sorted(site_roots, key=lambda k: (k[0], str(k[1]))):
            mut |= site_roots[key]
            if mutw is None:
                b = key[0]
                t = F.blocks[b]["term"]
                mutw = _short(names(t)[0]) if key[1] == "t" else "store"
        agg = {}       # block -> [variants, callee-dirty map, M roots, why, at], aggregated over all visits
        # results that are handed on as they are (`other => other`, `let r = f(); ...; r`): only for these is the
        # analysis split by the variant learned at a discriminant switch
        returned_as_is = set()
        for b_ in F.reachable():
            for st_ in F.blocks[b_]["stmts"]:
                if st_[0] == "assign" and st_[1]["l"] == 0 and not st_[1]["p"] and st_[2]["k"] == "use" and st_[2]["ops"]:
                    pl_ = op_place(st_[2]["ops"][0])
                    if pl_ is not None and not pl_["p"]:
                        returned_as_is.add(pl_["l"])
        grew = True
        while grew:
            grew = False
            for b_ in F.reachable():
                for st_ in F.blocks[b_]["stmts"]:
                    if st_[0] == "assign" and not st_[1]["p"] and st_[1]["l"] in returned_as_is and st_[2]["k"] == "use" \
                            and st_[2]["ops"]:
                        pl_ = op_place(st_[2]["ops"][0])
                        if pl_ is not None and not pl_["p"] and pl_["l"] not in returned_as_is:
                            returned_as_is.add(pl_["l"])
                            grew = True

        def result_like(l):
            ty = F.locals[l]["ty"]
            return ty.startswith("core::result::Result<") or ty.startswith("core::ops::control_flow::ControlFlow<")

        def site_desc(b):
            return _short(names(F.blocks[b]["term"])[0])

        def exit_event(b, op_list, M, pend, why, skip_local=None, tail_term=None):
            vs = set()
            cd = {}
            at = None
            if tail_term is not None:
                kind, tg = self.P.resolve(tail_term["callee"])
                if kind == "ws":
                    for g in tg:
                        vs |= self.ERRV[g]
                    cd = self._callee_dirty(F, None, tg, tail_term)
                at = _short(names(tail_term)[0])
            for o in op_list:
                vs |= self.variants_of(F, o)
                for ot in self._origin_terms(F, o):
                    kind, tg = self.P.resolve(ot["callee"])
                    if kind == "ws":
                        for v, val in self._callee_dirty(F, None, tg, ot).items():
                            if v in cd:
                                cd[v][0].update(val[0])
                            else:
                                cd[v] = val
                    at = at or _short(names(ot)[0])
            roots = set(M)
            w = why
            for l, (r, desc) in pend.items():
                if l != skip_local:
                    roots |= r
                    w = w or desc
            a = agg.get(b)
            if a is None:
                a = agg[b] = [set(), {}, set(), None, None]
            a[0] |= vs
            for v, val in cd.items():
                if v in a[1]:
                    a[1][v][0].update(val[0])
                else:
                    a[1][v] = (set(val[0]), val[1], val[2])
            a[2] |= roots
            a[3] = a[3] or w
            a[4] = a[4] or at

        def transfer1(b, state):
            M, pend_f, why, known_f = state
            M = set(M)
            pend = {l: (set(r), d) for l, r, d in pend_f}
            known = dict(known_f)      # Result/ControlFlow local -> "Ok" | "Err", learned at discriminant switches
            blk = F.blocks[b]
            for i, st in enumerate(blk["stmts"]):
                if st[0] == "assign":
                    rv = st[2]
                    d = st[1]
                    if not d["p"]:
                        kv = None
                        if rv["k"] == "use" and rv["ops"]:
                            ol0 = op_local(rv["ops"][0])
                            pl0 = op_place(rv["ops"][0])
                            if ol0 in known and "*" not in known and pl0 is not None and not pl0["p"]:
                                kv = known[ol0]
                                if "m" in rv["ops"][0]:
                                    known.pop(ol0, None)
                        if kv is not None:
                            known[d["l"]] = kv
                        else:
                            known.pop(d["l"], None)
                    if rv["k"] in ("use", "cast") and rv["ops"]:
                        ol = op_local(rv["ops"][0])
                        if ol in pend and not d["p"]:
                            pend[d["l"]] = pend[ol]
                    if (b, i) in site_roots:
                        M |= site_roots[(b, i)]
                        why = why or "store"
                    if d["l"] == 0 and not d["p"] and rv["k"] == "agg" and rv.get("variant") == "Err" \
                            and F.locals[0]["ty"].startswith("core::result::Result<"):
                        exit_event(b, rv["ops"], M, pend, why)
                    elif d["l"] == 0 and not d["p"] and rv["k"] in ("use",) and rv["ops"]:
                        ol = op_local(rv["ops"][0])
                        if ol is not None and result_like(ol) and known.get(0) != "Ok":
                            # (a result handed on as it is: on the paths where it is known to be Ok this is no error exit)
                            exit_event(b, rv["ops"], M, pend, why, skip_local=ol)
            t = blk["term"]
            if t["k"] == "call":
                nm = names(t)
                dl = t["dest"]["l"] if not t["dest"]["p"] else None
                for a in t["args"]:
                    if "m" in a and not a["m"]["p"]:
                        known.pop(a["m"]["l"], None)
                if dl is not None:
                    known.pop(dl, None)
                if any("Try>::branch" in n for n in nm) and t["args"]:
                    al = op_local(t["args"][0])
                    if al in pend and dl is not None:
                        pend[dl] = pend.pop(al)
                elif any(n.endswith("::from_residual") for n in nm) and dl == 0:
                    exit_event(b, t["args"], M, pend, why)
                else:
                    for a in t["args"]:
                        al = op_local(a)
                        if al in pend:
                            r, desc = pend.pop(al)
                            M |= r
                            why = why or desc
                    if dl == 0 and F.locals[0]["ty"].startswith("core::result::Result<"):
                        exit_event(b, [], M, pend, why, tail_term=t)
                    if (b, "t") in site_roots:
                        if dl is not None and result_like(dl):
                            pend[dl] = (set(site_roots[(b, "t")]), site_desc(b))
                        else:
                            M |= site_roots[(b, "t")]
                            why = why or site_desc(b)
            elif t["k"] == "switch":
                dl = op_local(t["op"])
                base = None
                for d in F.defs().get(dl, []) if dl is not None else []:
                    if d[0] == "assign" and d[3]["k"] == "discr":
                        base = d[3]["place"]["l"]
                if base is not None and (base in pend or result_like(base)) and len(t["targets"]) <= 2:
                    r, desc = pend.pop(base) if base in pend else (set(), None)
                    rest = frozenset((l, frozenset(x), dd) for l, (x, dd) in pend.items())
                    if "*" in known or base not in returned_as_is:
                        # knowledge was dropped at a join (too many configurations), or nobody returns this value as it is
                        k_ok = k_err = k_unk = frozenset(known.items())
                    else:
                        k_ok = frozenset(list((l, v) for l, v in known.items() if l != base) + [(base, "Ok")])
                        k_err = frozenset(list((l, v) for l, v in known.items() if l != base) + [(base, "Err")])
                        k_unk = frozenset((l, v) for l, v in known.items() if l != base)
                    committed = (frozenset(M | r), rest, why or desc, k_ok)
                    skipped = (frozenset(M), rest, why, k_err)
                    out = {}
                    listed = {v for v, _ in t["targets"]}
                    for v, tb in t["targets"]:
                        out[tb] = committed if v == "0" else skipped
                    ov = skipped if listed == {"0"} else (committed if listed == {"1"} else
                                                          (frozenset(M | r), rest, why or desc, k_unk))
                    if t["otherwise"] in out:
                        a = out[t["otherwise"]]
                        ov = (a[0] | ov[0], a[1] | ov[1], a[2] or ov[2], k_unk)
                    out[t["otherwise"]] = ov
                    return out
            return (frozenset(M), frozenset((l, frozenset(x), dd) for l, (x, dd) in pend.items()), why,
                    frozenset(known.items()))

        def norm(cfgs):
            """configurations with the same variant knowledge are merged; beyond 8 the knowledge is dropped"""
            def wmin(x, y):
                # deterministic and monotone choice of the description (set iteration order must not matter)
                return x if y is None else (y if x is None else min(x, y))
            by = {}
            for M_, p_, w_, k_ in cfgs:
                if k_ in by:
                    a = by[k_]
                    by[k_] = (a[0] | M_, a[1] | p_, wmin(a[2], w_), k_)
                else:
                    by[k_] = (M_, p_, w_, k_)
            if len(by) > 8 or any(("*", "*") in k_ for k_ in by):
                M_, p_, w_ = frozenset(), frozenset(), None
                for a in by.values():
                    M_, p_, w_ = M_ | a[0], p_ | a[1], wmin(w_, a[2])
                return frozenset({(M_, p_, w_, frozenset({("*", "*")}))})
            return frozenset(by.values())

        def transfer(b, state):
            single, outs = set(), {}
            for cfg in state:
                o = transfer1(b, cfg)
                if isinstance(o, dict):
                    for s_, c_ in o.items():
                        outs.setdefault(s_, set()).add(c_)
                    for s_ in F.succ(b):
                        if s_ not in o:
                            outs.setdefault(s_, set())
                else:
                    single.add(o)
            return {s_: norm(single | outs.get(s_, set())) for s_ in F.succ(b)}

        def join(a, b):
            return norm(a | b)

        forward(F, frozenset({(frozenset(), frozenset(), None, frozenset())}), transfer, join)
        errv = set()
        dirty = {}
        for b in sorted(agg):
            vs, cd, roots, w, at = agg[b]
            errv |= vs
            for v in sorted(vs):
                if roots:
                    cur = dirty.get(v)
                    if cur is None:
                        dirty[v] = (set(roots), w or "a mutation", at or "Err(%s)" % v)
                    else:
                        cur[0].update(roots)
                if v in cd:
                    cur = dirty.get(v)
                    if cur is None:
                        dirty[v] = (set(cd[v][0]), cd[v][1], cd[v][2] or at or "?")
                    else:
                        cur[0].update(cd[v][0])
        return mut, errv, dirty, mutw

    def solve(self):
        if self._solved:
            return self
        order = sorted(self.P.bodies.values(), key=lambda b: b.id)
        for rounds in range(1, 40):
            changed = False
            for F in order:
                mut, errv, dirty, mutw = self.analyze(F)
                if F.id in self.not_obs:
                    mut = set()
                    dirty = {}
                mutp = {r[1] for r in mut if r[0] == "param"}
                mutg = any(r[0] != "param" for r in mut)
                if mutp != self.MUTP[F.id] or mutg != self.MUTG[F.id]:
                    self.MUTP[F.id] = mutp
                    self.MUTG[F.id] = mutg
                    self.MUTW[F.id] = mutw
                    changed = True
                if errv != self.ERRV[F.id]:
                    self.ERRV[F.id] = errv
                    changed = True
                old = self.DIRTY[F.id]
                if {(v, frozenset(x[0])) for v, x in dirty.items()} != {(v, frozenset(x[0])) for v, x in old.items()}:
                    self.DIRTY[F.id] = dirty
                    changed = True
            if not changed:
                break
        self.rounds = rounds
        self._solved = True
        return self


def _short(path):
    path = re.sub(r"<impl [^>]*>::", "", path)
    path = re.sub(r"::<[^>]*>", "", path)
    parts = path.split("::")
    return "::".join(parts[-2:]) if len(parts) >= 2 else path
