"""C13 — an operation that reports an error has no effect (engine C, DESIGN §3.C / §4 C13)."""
from common import AnchorMissing
import atom

EXPLANATION = (
    "Refusal atomicity over MIR: for each refusing entry point and its refusal variants, no control-flow path "
    "(through callees, with summaries propagated to a fixpoint over the call graph) reaches an error exit carrying "
    "such a variant after an observable mutation. Mutations are stores through references whose provenance is a "
    "&mut parameter or the deref of a write guard, calls that mutate through such references, and an explicit table "
    "of external effects (mmap copies, atomics, fs writes); the `?` shape is recognised so a callee's own mutation "
    "counts on its success edge only, unless the callee can itself fail after mutating. Equality of 'the outcome of "
    "every later operation' follows from state equality and is not decided separately.")

RAW = "vecdb::variants::raw::inner::read_write::ReadWriteRawVec::<I, T, S>::"
CMP = "vecdb::variants::compressed::inner::read_write::ReadWriteCompressedVec::<I, T, S>::"
RAW_W = ("vecdb::variants::raw::inner::read_write::writable::<impl vecdb::traits::writable::WritableVec<I, T> for "
         "vecdb::variants::raw::inner::read_write::ReadWriteRawVec<I, T, S>>::")
CMP_W = ("vecdb::variants::compressed::inner::read_write::writable::<impl vecdb::traits::writable::WritableVec<I, T> "
         "for vecdb::variants::compressed::inner::read_write::ReadWriteCompressedVec<I, T, S>>::")

INSTANCES = [
    # (entry body, refusal variants or None = any error, what)
    ("rawdb::region::Region::write", {"WriteOutOfBounds"}, "append"),
    ("rawdb::region::Region::write_at", {"WriteOutOfBounds"}, "positional write beyond the end"),
    ("rawdb::region::Region::truncate_write", {"WriteOutOfBounds"}, "truncate-and-write beyond the end"),
    ("rawdb::region::Region::truncate", {"TruncateInvalid"}, "truncate beyond the length"),
    ("rawdb::region::Region::rename", {"RegionAlreadyExists", "RegionNotFound"}, "rename onto an existing name"),
    ("rawdb::region::Region::remove", {"RegionStillReferenced", "RegionNotFound"}, "removal of a referenced region"),
    ("rawdb::Database::remove_region", {"RegionStillReferenced", "RegionNotFound"}, "removal of a referenced region"),
    ("rawdb::Database::remove_region_if_exists", {"RegionStillReferenced"}, "removal of a referenced region"),
    (RAW + "remove", {"RegionStillReferenced"}, "removal of a vector that is still referenced"),
    (CMP + "remove", {"RegionStillReferenced"}, "removal of a vector that is still referenced"),
    (RAW + "import_with", {"DifferentVersion", "DifferentFormat", "WrongLength", "WrongEndian"},
     "import with a mismatching version/format"),
    (CMP + "import_with", {"DifferentVersion", "DifferentFormat", "WrongLength", "WrongEndian"},
     "import with a mismatching version/format"),
    ("vecdb::traits::writable::WritableVec::checked_push_at", {"UnexpectedIndex"}, "checked push at the wrong index"),
    ("vecdb::traits::writable::WritableVec::checked_push", {"UnexpectedIndex"}, "checked push at the wrong index"),
    (RAW + "update_at", {"IndexTooHigh"}, "update beyond the end"),
    (RAW + "update", {"IndexTooHigh"}, "update beyond the end"),
    (RAW_W + "rollback", None, "rollback without a usable change record"),
    (CMP_W + "rollback", None, "rollback without a usable change record"),
]


def run(ctx, chk, only=None, prefix="ATOM"):
    P = ctx.P
    A = getattr(ctx, "_atom", None)
    if only is None:
        from props.c14 import aux_after_base_import
        aux_after_base_import(ctx, chk, "ATOM.aux")
    if A is None:
        A = atom.Atom(P, ctx.L).solve()
        ctx._atom = A
    for entry, R, what in INSTANCES:
        if only is not None and entry not in only:
            continue
        if entry not in P.bodies:
            raise AnchorMissing("entry point not found: %s" % entry)
        dirty = A.DIRTY[entry]
        errv = A.ERRV[entry]
        if R is not None and not (errv & R):
            raise AnchorMissing("%s: none of the refusal variants %s is among the variants it can return %s" % (
                entry, sorted(R), sorted(errv)))
        bad = {v: w for v, w in dirty.items() if (R is None or v in R) and not v.startswith("?")}
        nm = entry.split("::")[-1] if "writable" not in entry else (
            ("raw " if "raw" in entry else "compressed ") + entry.split("::")[-1])
        if entry.startswith(RAW):
            nm = "raw " + nm
        if entry.startswith(CMP):
            nm = "compressed " + nm
        chk.obligations.append(("%s %s: no %s exit after an observable mutation (%s)" % (
            prefix, entry, "/".join(sorted(R)) if R else "error", what), not bad, None))
        # one violation per (mutation, failing step) pair: position-free key
        groups = {}
        for v, (roots, after, at) in sorted(bad.items()):
            groups.setdefault((after, at), []).append(v)
        for (after, at), vs in sorted(groups.items()):
            chk.violate("%s|%s|after=%s|at=%s" % (prefix, entry, after, at),
                        "%s returns %s (from %s) after having changed observable state (%s)" % (
                            nm, "/".join(vs), at, after),
                        {"entry": entry, "refusal_variants": sorted(R) if R else "any", "variants": vs,
                         "mutation": after, "failing_step": at, "all_variants_returned": sorted(errv)})
    if only is None:
        # a refused rollback_before (first step) has no effect: nothing is snapshotted on the refusing path
        from props.c16 import no_save_after_refusal
        no_save_after_refusal(ctx, chk, "ATOM.rb")
    chk.cov["bodies_with_mutation_summary"] = sum(1 for b in P.bodies if A.MUTG[b] or A.MUTP[b])
    chk.cov["bodies_returning_errors"] = sum(1 for b in P.bodies if A.ERRV[b])
    chk.cov["summary_rounds"] = A.rounds
    chk.sample({"entry": "rawdb::region::Region::remove", "variants": sorted(A.ERRV["rawdb::region::Region::remove"]),
                "dirty": {v: [sorted(map(str, x[0])), x[1], x[2]] for v, x in A.DIRTY["rawdb::region::Region::remove"].items()}})
    chk.assumptions += [
        "not observable (rules/atom.json): dirty-range bookkeeping, RegionState flags, file capacity growth, "
        "get-or-create of a region on the import-verify path",
        "internal-invariant errors (RegionIndexMismatch, HoleTooSmall, OverlappingCopyRanges, IO) are not refusals",
        "Database::retain_regions is a batch of removals and is not an instance (each removal is)",
    ]
