"""C05 — crash never damages untouched flushed regions / layout: ordering clauses (DESIGN §4 C05)."""
import re
from order import M, names
from program import op_place
from common import AnchorMissing

FLUSH = "rawdb::Database::flush"
RFLUSH = "rawdb::region::Region::flush"
WRITE_WITH = "rawdb::region::Region::write_with"
COMPACT = "rawdb::Database::compact"
PUNCH_HOLES = "rawdb::Database::punch_holes"

def _not_regions_sync(body, b, t):
    return not any(n.startswith("rawdb::regions::Regions::") for n in names(t))


FILE_SYNC = M(r"std::fs::File::sync_(data|all)", reach="must", where=_not_regions_sync, label="File::sync_data (data file)")
REGIONS_SYNC = M(r"rawdb::regions::Regions::sync_data", reach="must", label="Regions::sync_data")
MARK_CLEAN = M(r"rawdb::region_metadata::RegionMetadata::mark_clean", reach=True)
PROMOTE = M(r"rawdb::layout::Layout::promote_pending_holes", reach=True)
INSERT_HOLE = M(r"rawdb::layout::Layout::insert_hole")
DB_WRITE = M(r"rawdb::Database::(write|copy)")
MARK_DIRTY = M(r"rawdb::region::Region::(mark_dirty|mark_dirty_abs)", reach="must")
META_SET = M(r"rawdb::region_metadata::RegionMetadata::set_(start|len|reserved|id)")
WRITE_IF_DIRTY = M(r"rawdb::region_metadata::RegionMetadata::write_if_dirty", reach="must")
PUNCH = M(r"rawdb::hole_punch::HolePunch::punch")
LAYOUT_FROM = "<rawdb::layout::Layout as core::convert::From<&rawdb::regions::Regions>>::from"


def fmt_sites(body, blocks):
    return [body.blocks[b]["term"].get("span", "?") for b in blocks]


def rule_precedes(ctx, chk, rid, fn, a, b, what, floor_b=1):
    """precedes(A, B) evaluated in fn and in the private helpers fn's body may have been moved into; a B site that
    is only a call into such a helper is judged inside the helper."""
    O = ctx.O
    O.body(fn)
    scope = O.scope_of(fn)
    all_b, all_bad, where = [], [], []
    for g in scope:
        body = O.body(g)
        direct_b = M(b.rx.pattern, reach=False, where=b.where, label=b.label)
        bs = [x for x in O.sites(body, b) if O.matches(body, x, direct_b) or not O.calls_into(body, x, scope)]
        if not bs:
            continue
        both = [x for x in bs if O.matches(body, x, a)]
        bm = M(b.rx.pattern, reach=b.reach, label=b.label,
               where=lambda bd, blk, t, _bs=bs: blk in _bs and (b.where is None or b.where(bd, blk, t)))
        am = M(a.rx.pattern, reach=a.reach, label=a.label,
               where=lambda bd, blk, t, _both=both: blk not in _both and (a.where is None or a.where(bd, blk, t)))
        bad = O.precedes(body, am, bm)
        all_b += fmt_sites(body, bs)
        all_bad += fmt_sites(body, bad)
        where.append(g)
    if len(all_b) < floor_b:
        raise AnchorMissing("%s (and its private helpers): expected >= %d call site(s) matching %s, found %d" % (
            fn, floor_b, b, len(all_b)))
    chk.oblige("%s precedes(%s: %s before %s) [%d site(s) in %s]" % (rid, fn, a.label, b.label, len(all_b),
                                                                      [w.split("::")[-1] for w in where]), not all_bad,
               detail={"rule": rid, "function": fn, "evaluated_in": where, "must_come_first": a.label, "before": b.label,
                       "unpreceded_sites": all_bad, "all_sites": all_b},
               key="%s|%s|%s" % (rid, fn, b.label), msg=what)


def flush_before_punch(ctx, chk, prefix):
    """shared by C05 (B05.5) and C12 (B12.1)"""
    O = ctx.O
    rule_precedes(ctx, chk, prefix + ".a", COMPACT, M(r"rawdb::Database::flush"), M(r"rawdb::Database::punch_holes"),
                  "compact() must flush before it punches holes")
    bad, n = O.only_callers(M(r"rawdb::Database::punch_holes"), {COMPACT})
    if n < 1:
        raise AnchorMissing("no call site of Database::punch_holes")
    chk.oblige("%s.b only_callers(punch_holes) = {compact} [%d sites]" % (prefix, n), not bad,
               detail={"offenders": bad}, key="%s.b|only_callers|punch_holes" % prefix,
               msg="punch_holes may only be called from compact (after its flush)")
    bad, n = O.only_callers(PUNCH, {PUNCH_HOLES})
    if n < 1:
        raise AnchorMissing("expected >= 1 HolePunch::punch call sites, found %d" % n)
    chk.oblige("%s.c only_callers(HolePunch::punch) = {punch_holes (+closure)} [%d sites]" % (prefix, n), not bad,
               detail={"offenders": bad}, key="%s.c|only_callers|HolePunch::punch" % prefix,
               msg="HolePunch::punch may only be called from punch_holes")
    # punch ranges derive only from region metadata (tail) or promoted layout holes
    allowed_src = (
        "rawdb::region_metadata::RegionMetadata::start", "rawdb::region_metadata::RegionMetadata::len",
        "rawdb::region_metadata::RegionMetadata::reserved", "rawdb::Database::ceil_number_to_page_size_multiple",
        "rawdb::layout::Layout::start_to_hole", "rawdb::region::Region::meta_mut",
        # selecting *which* region's tail is inspected
        "rawdb::Database::regions", "rawdb::regions::Regions::index_to_region",
    )
    nsites = 0
    for bid in (PUNCH_HOLES,) + tuple(ctx.P.children.get(PUNCH_HOLES, [])):
        body = ctx.P.bodies[bid]
        for b in O.sites(body, PUNCH):
            nsites += 1
            t = body.blocks[b]["term"]
            calls = set()
            params = set()
            for a in t["args"][1:3]:
                sl = O.slice_back(body, a)
                calls |= {c for c in sl["calls"] if c.startswith("rawdb::")}
                params |= sl["params"]
            extra = sorted(c for c in calls if c not in allowed_src)
            ok = not extra
            if body.kind == "closure":
                # range comes in through the closure parameter: the parent must feed the iterator from
                # Layout::start_to_hole only
                parent = ctx.P.bodies[body.root]
                fed = False
                for pb, pt in parent.calls():
                    if any(n.endswith("par_iter") or "IntoParallelRefIterator" in n for n in names(pt)):
                        sl = O.slice_back(parent, pt["args"][0])
                        rc = {c for c in sl["calls"] if c.startswith("rawdb::")}
                        fed = "rawdb::layout::Layout::start_to_hole" in rc and rc <= set(allowed_src) | {
                            "rawdb::Database::layout"}
                ok = ok and fed and params
            chk.oblige("%s.d flows_to(punch range <- metadata tail / promoted holes only) in %s" % (prefix, bid), ok,
                       detail={"site": t.get("span"), "sources": sorted(calls), "unexpected": extra},
                       key="%s.d|flows_to|%s" % (prefix, bid),
                       msg="hole-punch range must derive only from a region's (start,len,reserved) tail or Layout::start_to_hole")
    if nsites < 2:
        raise AnchorMissing("expected 2 punch sites in punch_holes (+closure), found %d" % nsites)

import props.anchors as anchors


def ww_body(O):
    return O.body(WRITE_WITH)


def layout_map_writers(ctx, chk, rid):
    """shared by C05, C10 and C12"""
    O, P = ctx.O, ctx.P
    # B05.3d who may write the layout's maps (a freed extent must not reach the reusable-hole maps by another door)
    writers = {
        "start_to_hole": {"rawdb::layout::Layout::insert_hole", "rawdb::layout::Layout::remove_hole"},
        "hole_to_starts": {"rawdb::layout::Layout::insert_hole", "rawdb::layout::Layout::remove_hole"},
        "pending_holes": {"rawdb::layout::Layout::remove_region", "rawdb::layout::Layout::promote_pending_holes"},
        "start_to_reserved": {"rawdb::layout::Layout::reserve", "rawdb::layout::Layout::take_reserved"},
        "start_to_region": {"rawdb::layout::Layout::insert_region", "rawdb::layout::Layout::remove_region"},
    }
    ctor = LAYOUT_FROM
    for field, allowed in sorted(writers.items()):
        offenders = []
        n = 0
        for bid, body in sorted(P.bodies.items()):
            if body.krate != "rawdb":
                continue
            if anchors.mut_field(body, field) and "rawdb::layout::Layout" in " ".join(l["ty"] for l in body.locals[:body.arg_count + 2]):
                n += 1
                root = body.root
                if root not in allowed and bid not in allowed and root != ctor and not root.endswith("Default>::default") \
                        and not O.private_part_of(root, allowed | {ctor}):
                    offenders.append(bid)
        chk.oblige("%s only %s write Layout.%s [%d writer bodies]" % (rid, sorted(a.split("::")[-1] for a in allowed), field, n),
                   not offenders and n >= 1, detail={"offenders": offenders}, key="%s|field-writers|%s" % (rid, field),
                   msg="the layout's maps are changed only through their designated functions (a freed extent must go "
                       "through pending_holes and promotion)")


BTREE_Q = re.compile(r"alloc::collections::btree::map::BTreeMap::<K, V, A>::(\w+)$")
_LEAST = {"first_key_value", "first_entry", "pop_first"}
_COVERS_GREATEST = {"last_key_value", "last_entry", "iter", "keys", "values", "into_iter", "range", "iter_mut",
                    "values_mut"}


def len_takes_greatest(ctx, chk, rid):
    """shared by C05 / C10 / C12: `Layout::len` is where the next end-of-file placement goes, so for each of the
    four extent maps it must look at the entry with the GREATEST start (or at all of them), never only at the least.
    Queries are collected over Layout::len and the Layout helpers / closures it reaches and attributed to a map by
    the backward slice of the receiver."""
    O, P = ctx.O, ctx.P
    ln = "rawdb::layout::Layout::len"
    O.body(ln)
    scope = {ln} | {g for g in O.reach(ln) if g.startswith("rawdb::layout::Layout::")}
    for g in list(scope):
        for K in P.children.get(g, []):
            scope.add(K)
    fields = ("start_to_region", "start_to_hole", "pending_holes", "start_to_reserved")
    q = {f: set() for f in fields}
    nq = 0
    for g in sorted(scope):
        G = P.bodies.get(g)
        if G is None:
            continue
        for b, t in G.calls():
            m = None
            for n in names(t):
                mm = BTREE_Q.search(n)
                if mm:
                    m = mm.group(1)
            if m is None or not t["args"]:
                continue
            fl = O.slice_back(G, t["args"][0])["fields"]
            for f in fields:
                if f in fl:
                    q[f].add(m)
                    nq += 1
    if nq < 3:
        raise AnchorMissing("Layout::len: expected >= 3 BTreeMap queries on the extent maps in its reach, found %d" % nq)
    for f in fields:
        if not q[f]:
            continue        # presence is B05.7 / A10.9's clause ("accounts for")
        ok = bool(q[f] & _COVERS_GREATEST) and not (q[f] & _LEAST)
        chk.oblige("%s Layout::len takes the greatest entry of %s %s" % (rid, f, sorted(q[f])), ok,
                   key="%s|len|not-greatest|%s" % (rid, f),
                   msg="the end of the allocated area is the end of the LAST extent of every map; taking the first "
                       "entry places the next region on top of an occupied (or freed-but-not-durable) extent")


def occupied_maps_consulted(ctx, chk, rid, fields):
    """every exit of Layout::is_last_anything that can answer `true` has consulted each of the given maps, and
    Layout::len reads them (shared by C05 / C10 / C12)."""
    O, P = ctx.O, ctx.P
    ila = O.body("rawdb::layout::Layout::is_last_anything")
    may_true = _may_true_blocks(O, ila)
    for field in fields:
        readers_blocks = _field_read_blocks_deep(ctx, ila, field)
        inn = O.seen_before(ila, readers_blocks)
        bad = [b for b in may_true if not (inn[b] or b in readers_blocks)]
        chk.oblige("%s Layout::is_last_anything: every exit that can answer `true` has consulted %s [%d such exits]" % (
            rid, field, len(may_true)), bool(may_true) and not bad, key="%s|is_last_anything|true-without-%s" % (rid, field),
            msg="a region may only be grown in place if nothing lies behind it: reusable holes, freed-but-not-durable "
                "extents and in-flight reservations of other threads all count")
        ln = "rawdb::layout::Layout::len"
        chk.oblige("%s Layout::len accounts for %s" % (rid, field), ln in _field_readers(ctx, "rawdb::layout::Layout", field),
                   key="%s|len|ignores-%s" % (rid, field),
                   msg="the end of the allocated area must cover every kind of occupied extent")


def _may_true_blocks(O, body):
    """blocks that give the function's bool result a value that may be `true`: assignments to the return place, and -
    when the result is produced by a std combinator whose closure was spliced into the body (`opt.is_some_and(|..| ..)`)
    - the assignments to that closure's return place instead of the combinator call itself."""
    R = {0}
    derived = set()
    changed = True
    while changed:
        changed = False
        for b, t in body.calls():
            if not t["dest"]["p"] and t["dest"]["l"] in R and t.get("spliced") and b not in derived:
                derived.add(b)
                for a in t["args"][-len(t["spliced"]):]:
                    pl = op_place(a)
                    if pl is not None and pl["l"] not in R:
                        R.add(pl["l"])
                        changed = True
    out = []
    for b in body.reachable():
        blk = body.blocks[b]
        for st in blk["stmts"]:
            if st[0] == "assign" and st[1]["l"] in R and not st[1]["p"]:
                v = O.const_of(body, st[2]["ops"][0]) if st[2]["k"] == "use" and st[2].get("ops") else None
                if v != "0":
                    out.append(b)
        t = blk["term"]
        if t["k"] == "call" and not t["dest"]["p"] and t["dest"]["l"] in R and b not in derived:
            out.append(b)
    return out


def _field_read_blocks_deep(ctx, body, field):
    """blocks of `body` that read `field` directly or call a same-type helper that reads it."""
    O, P = ctx.O, ctx.P
    out = set(_field_read_blocks(body, field))
    readers = _field_readers(ctx, "rawdb::layout::Layout", field)
    for b, t in body.calls():
        kind, tg = P.resolve(t["callee"])
        if kind == "ws" and any(g in readers for g in tg):
            out.add(b)
        for a in t["args"]:
            pl = op_place(a)
            if pl is not None:
                for K in body.locals[pl["l"]].get("closures", []):
                    if K in P.bodies and _field_read_blocks(P.bodies[K], field):
                        out.add(b)
    return sorted(out)


def pending_holes_occupied(ctx, chk, rid):
    """shared by C05 and C12"""
    O, P = ctx.O, ctx.P
    # B05.7 pending holes count as occupied space for every placement decision, and are never allocatable
    pend_readers = _field_readers(ctx, "rawdb::layout::Layout", "pending_holes")
    for fn in ("rawdb::layout::Layout::len", "rawdb::layout::Layout::is_last_anything"):
        O.body(fn)
        chk.oblige(rid + " %s consults pending_holes (freed-but-not-durable extents are still occupied)" % fn,
                   fn in pend_readers, key=rid + "|reads|%s|pending_holes" % fn,
                   msg="a placement decision must treat pending holes as occupied: their bytes may still be the durable "
                       "copy of a region until the next flush")
    ila = O.body("rawdb::layout::Layout::is_last_anything")
    readers_blocks = _field_read_blocks(ila, "pending_holes")
    inn = O.seen_before(ila, readers_blocks)
    may_true = _may_true_blocks(O, ila)
    bad = [b for b in may_true if not (inn[b] or b in readers_blocks)]
    chk.oblige(rid + "b Layout::is_last_anything: every exit that can answer `true` has consulted pending_holes "
               "[%d such exits]" % len(may_true), bool(may_true) and not bad,
               key=rid + "b|is_last_anything|true-without-pending_holes",
               msg="a fast path must not declare a region 'last in the file' without looking at the extents that were "
                   "freed but are not yet durable (growing in place would overwrite them)")
    for fn in ("rawdb::layout::Layout::find_smallest_adequate_hole", "rawdb::layout::Layout::get_hole",
               "rawdb::layout::Layout::remove_or_compress_hole"):
        O.body(fn)
        chk.oblige(rid + " %s never hands out a pending hole" % fn, fn not in pend_readers,
                   key=rid + "|no-read|%s|pending_holes" % fn,
                   msg="pending holes must not be allocatable before promote_pending_holes")


def run(ctx, chk):
    O, P = ctx.O, ctx.P
    # B05.1 Database::flush
    anchors.check(ctx, chk, ['regions_sync', 'regions_flush', 'write_if_dirty', 'regions_write_at', 'write_to_mmap', 'db_write', 'db_copy', 'mark_dirty', 'mark_dirty_abs', 'take_dirty', 'remove_region_pending', 'promote_reads_pending', 'promote_inserts', 'punch'])
    def _commits(body, b, t):
        cs = O.sites(body, MARK_CLEAN)
        return bool(cs) and O.can_reach(body, b, cs)
    committing_sync = M(r"rawdb::regions::Regions::sync_data", reach=True, where=_commits,
                        label="Regions::sync_data (on a path that marks dirty regions clean)")
    rule_precedes(ctx, chk, "B05.1a", FLUSH, FILE_SYNC, committing_sync,
                  "data file must be synced before the metadata file wherever dirty regions are committed "
                  "(Database::flush)")
    rule_precedes(ctx, chk, "B05.1b", FLUSH, REGIONS_SYNC, MARK_CLEAN,
                  "metadata must be durable before regions are marked clean")
    rule_precedes(ctx, chk, "B05.1c", FLUSH, REGIONS_SYNC, PROMOTE,
                  "freed extents become reusable (promote_pending_holes) only after the metadata that frees them "
                  "was synced, on every path of Database::flush")
    # B05.1d promotion only on success: no promote_pending_holes while the Result of a sync-reaching call is
    # unchecked or failed
    risky = M(r"std::fs::File::sync_(data|all)|rawdb::regions::Regions::sync_data|memmap2::MmapMut::flush\w*", reach=True,
              label="a call that reaches a sync/flush")
    n_p = 0
    for g in O.scope_of(FLUSH):
        body = P.bodies[g]   # not inlined: a helper's Result is judged at the call that checks it
        ps = O.sites(body, M(r"rawdb::layout::Layout::promote_pending_holes"))
        n_p += len(ps)
        bad = O.after_failure(body, risky, M(r"rawdb::layout::Layout::promote_pending_holes"))
        chk.oblige("B05.1d %s: promote_pending_holes only after the syncs it depends on have succeeded" % g.split("::")[-1],
                   not bad, detail={"sites": fmt_sites(body, bad)}, key="B05.1d|%s|promote-after-failure" % FLUSH,
                   msg="freed extents must not become reusable when a sync of this flush failed (or before its result "
                       "was checked)")
    if n_p < 1:
        raise AnchorMissing("no promote_pending_holes site in Database::flush or its private helpers")
    # B05.2 Region::flush
    rule_precedes(ctx, chk, "B05.2", RFLUSH, FILE_SYNC, REGIONS_SYNC,
                  "data file must be synced before the metadata file (Region::flush)")
    # B05.3 who may promote / insert holes
    bad, n = O.only_callers(M(r"rawdb::layout::Layout::promote_pending_holes"), {FLUSH})
    chk.oblige("B05.3a only_callers(promote_pending_holes) = {Database::flush} [%d sites]" % n, not bad and n >= 1,
               detail={"offenders": bad}, key="B05.3a|only_callers|promote_pending_holes",
               msg="pending holes may only be promoted by Database::flush")
    allowed = {LAYOUT_FROM, "rawdb::layout::Layout::remove_or_compress_hole",
               "rawdb::layout::Layout::promote_pending_holes"}
    for a in allowed:
        O.body(a)
    bad, n = O.only_callers(INSERT_HOLE, allowed)
    if n < 1:
        raise AnchorMissing("expected >= 1 Layout::insert_hole call sites, found %d" % n)
    chk.oblige("B05.3b only_callers(insert_hole) = {Layout::from, remove_or_compress_hole, promote_pending_holes} "
               "[%d sites]" % n, not bad, detail={"offenders": bad}, key="B05.3b|only_callers|insert_hole",
               msg="reusable holes are created only at open, by splitting a hole, or by promotion")
    for f in ("rawdb::layout::Layout::remove_region", "rawdb::layout::Layout::move_region"):
        O.body(f)
        r = O.reach(f)
        ok = "rawdb::layout::Layout::insert_hole" not in r
        chk.oblige("B05.3c %s does not reach insert_hole (freed extent goes to pending_holes)" % f, ok,
                   key="B05.3c|reach|%s" % f, msg="a freed extent must not become reusable before the next flush")
    layout_map_writers(ctx, chk, "B05.3d")
    pending_holes_occupied(ctx, chk, "B05.7")
    len_takes_greatest(ctx, chk, "B05.10")
    # B05.8 open never fails because of what a slot contains (a crash may leave any mix of old and new slot pages,
    # e.g. two slots with the same name after remove + rename): once the slot loop of Regions::fill has started, no
    # error exit is reachable
    fill = O.body("rawdb::regions::Regions::fill")
    fbs = O.need_sites(fill, M(r"rawdb::region_metadata::RegionMetadata::from_bytes", reach=True), 1)
    ek = O.exit_kinds(fill)
    errs = [b for b, k in ek.items() if k == "err" and any(O.can_reach(fill, f, [b]) for f in fbs)]
    chk.oblige("B05.8 Regions::fill: no error exit is reachable once slots are being decoded [%d error exits before the loop]"
               % sum(1 for k in ek.values() if k == "err"), not errs,
               detail={"error_exits_in_loop": [fill.blocks[b]["term"].get("span") or "?" for b in errs]},
               key="B05.8|Regions::fill|error-exit-in-slot-loop",
               msg="files left by a crash must open: per-slot conditions may only skip the slot, never fail the open")
    # B05.9 a metadata slot is not written while the file growth its values depend on is still ahead
    wid = O.sites(ww_body(O), WRITE_IF_DIRTY)
    grow = O.sites(ww_body(O), M(r"rawdb::Database::set_min_len"))
    early = [b for b in wid if O.can_reach(ww_body(O), b, grow)]
    chk.oblige("B05.9 write_with: no write_if_dirty from which a set_min_len is still reachable [%d slot writes, %d growth "
               "calls]" % (len(wid), len(grow)), bool(wid) and bool(grow) and not early,
               detail={"early_slot_writes": [ww_body(O).blocks[b]["term"].get("span") for b in early]},
               key="B05.9|write_with|slot-written-before-growth",
               msg="a slot describing an extent beyond the current end of the file must not reach the metadata mapping "
                   "before the file has been grown (a crash or failed growth leaves a region outside the file)")
    # B05.4 dirty tracking
    ww = O.body(WRITE_WITH)
    ws = O.need_sites(ww, DB_WRITE, 2)
    bad = O.followed_by(ww, DB_WRITE, MARK_DIRTY, exits="ok")
    chk.oblige("B05.4a followed_by(write_with: Database::write/copy -> mark_dirty*, ok exits) [%d sites]" % len(ws),
               not bad, detail={"sites_without_mark_dirty": fmt_sites(ww, bad)},
               key="B05.4a|rawdb::region::Region::write_with|mark_dirty",
               msg="every mmap write in write_with must be recorded in the dirty bounds, else flush() skips it")
    for fn, floor in ((WRITE_WITH, 8), ("rawdb::region::Region::truncate", 1), ("rawdb::region::Region::rename", 1)):
        body = O.body(fn)
        ss = O.need_sites(body, META_SET, floor)
        bad = O.followed_by(body, META_SET, WRITE_IF_DIRTY, exits="ok")
        chk.oblige("B05.4b followed_by(%s: RegionMetadata::set_* -> write_if_dirty, ok exits) [%d sites]" % (
            fn, len(ss)), not bad, detail={"sites": fmt_sites(body, bad)}, key="B05.4b|%s|write_if_dirty" % fn,
            msg="a metadata change must be written to its slot before the operation returns Ok")
    bwe = O.body("rawdb::region::Region::batch_write_each")
    cb_sites = [b for b, t in bwe.calls() if P.resolve(t["callee"])[0] == "callback"]
    if not cb_sites:
        raise AnchorMissing("batch_write_each: write callback invocation not found")
    dirty_lock = M(r"lock_api::mutex::Mutex::<R, T>::lock",
                   where=lambda body, b, t: ctx.L.prim(t["callee"])[0] == "DIRTY")
    after = O.never_after(bwe, M(r".*", where=lambda body, b, t: b in cb_sites), dirty_lock)
    chk.oblige("B05.4c batch_write_each updates dirty_bounds after its raw writes", bool(after),
               key="B05.4c|rawdb::region::Region::batch_write_each|dirty_bounds",
               msg="raw mmap writes of batch_write_each must be recorded in the dirty bounds")
    # B05.5
    flush_before_punch(ctx, chk, "B05.5")
    # B05.6 whole-slot writes
    size = P.consts.get("rawdb::region_metadata::SIZE_OF_REGION_METADATA")
    page = P.consts.get("rawdb::PAGE_SIZE")
    if size is None or page is None:
        raise AnchorMissing("constants SIZE_OF_REGION_METADATA / PAGE_SIZE not found")
    chk.oblige("B05.6a const SIZE_OF_REGION_METADATA == PAGE_SIZE == 4096 (got %s, %s)" % (size, page),
               size == page == "4096", key="B05.6a|const|SIZE_OF_REGION_METADATA",
               msg="a metadata slot must be exactly one 4 KiB page (atomic page write)")
    wa = M(r"rawdb::regions::Regions::write_at")
    sites = O.callers_of(wa)
    if len(sites) < 1:
        raise AnchorMissing("expected >= 1 Regions::write_at call sites, found %d" % len(sites))
    for bid, root, b in sites:
        body = P.bodies[bid]
        t = body.blocks[b]["term"]
        tys = _source_types(body, t["args"][2])
        ok = any(("[u8; %s]" % size) in ty or "[u8; rawdb::region_metadata::SIZE_OF_REGION_METADATA]" in ty for ty in tys)
        chk.oblige("B05.6b %s passes a whole [u8; %s] slot to Regions::write_at" % (bid, size), ok,
                   detail={"types": sorted(tys)}, key="B05.6b|%s|write_at" % bid,
                   msg="metadata slots are written whole (one page), never partially")
    chk.sample({"rule": "B05.1c", "function": FLUSH, "sites_checked": fmt_sites(O.body(FLUSH), O.sites(O.body(FLUSH), PROMOTE))})


def _source_types(body, op, depth=0, seen=None):
    """types of the locals an operand is copied / borrowed / unsized from."""
    seen = seen if seen is not None else set()
    p = op_place(op)
    if p is None or depth > 8:
        return set()
    l = p["l"]
    if l in seen:
        return set()
    seen.add(l)
    out = {body.locals[l]["ty"]}
    for d in body.defs().get(l, []):
        if d[0] == "assign":
            rv = d[3]
            for o in rv.get("ops", []):
                out |= _source_types(body, o, depth + 1, seen)
            if "place" in rv:
                out |= _source_types(body, {"c": rv["place"]}, depth + 1, seen)
    return out


def _field_read_blocks(body, field):
    out = []
    for b in body.reachable():
        blk = body.blocks[b]
        places = []
        for st in blk["stmts"]:
            if st[0] == "assign":
                rv = st[2]
                if "place" in rv:
                    places.append(rv["place"])
                for o in rv.get("ops", []):
                    pl = op_place(o)
                    if pl:
                        places.append(pl)
        for o in blk["term"].get("args", []):
            pl = op_place(o)
            if pl:
                places.append(pl)
        if any(isinstance(e, list) and e[0] == "f" and e[2] == field for pl in places for e in pl["p"]):
            out.append(b)
    return out


def _field_readers(ctx, adt, field):
    """bodies that project `field` of a place whose base type is `adt` (directly or through callees of the same impl)."""
    P, O = ctx.P, ctx.O
    direct = set()
    for bid, body in P.bodies.items():
        if body.krate != "rawdb":
            continue
        for b in body.reachable():
            blk = body.blocks[b]
            places = []
            for st in blk["stmts"]:
                if st[0] == "assign":
                    places.append(st[1])
                    rv = st[2]
                    if "place" in rv:
                        places.append(rv["place"])
                    for o in rv.get("ops", []):
                        pl = op_place(o)
                        if pl:
                            places.append(pl)
            t = blk["term"]
            for o in t.get("args", []):
                pl = op_place(o)
                if pl:
                    places.append(pl)
            for pl in places:
                if any(isinstance(e, list) and e[0] == "f" and e[2] == field for e in pl["p"]) and \
                        adt in body.locals[pl["l"]]["ty"]:
                    direct.add(bid)
    out = set(direct)
    for bid in P.bodies:
        if bid.startswith(adt + "::") and bid not in out:
            if any(r in direct and r.startswith(adt + "::") for r in O.reach(bid)):
                out.add(bid)
    return out
