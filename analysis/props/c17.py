"""C17 — on-disk codecs reject garbage without panicking (engine D, DESIGN §3.D / §4 C17)."""
import re

from order import M, names
from program import op_place, op_local
from common import AnchorMissing
import decode

EXPLANATION = (
    "Panic-site inventory with guard matching over the MIR of every decoder (region metadata, vector header, "
    "format, page-index entry, stamp/version, all Bytes::from_bytes impls, the change-record cursor and parsers): "
    "every range/element index, overflow assert, unwrap/expect, zero chunk size and every allocation with a "
    "non-constant size must be discharged by `a <= b` facts that hold on all paths reaching it (established by "
    "comparisons with early error returns, by checked arithmetic, and by the Ok edge of the cursor's "
    "check_remaining); plus presence of the validity checks of RegionMetadata::from_bytes / "
    "HeaderInner::import_and_verify and the skip-on-error shape of Regions::fill. Round-trip equality is not decided.")

_BYTES, _POS = "bytes", "pos"

DECODERS = re.compile(
    r"^rawdb::region_metadata::RegionMetadata::from_bytes($|::)|"
    r"^vecdb::base::header::inner::HeaderInner::(from_bytes|import_and_verify)($|::)|"
    r".*<impl vecdb::bytes::Bytes for .*>::from_bytes($|::)|"
    r"^vecdb::base::change::cursor::ChangeCursor::<'a>::|"
    r".*::parse_change_data($|::)|.*::parse_raw_change_data($|::)|"
    r".*ValueStrategy<T>>::read($|::)|.*as vecdb::traits::value_strategy::ValueStrategy<.*>>::read($|::)")

# parameters that are not input-derived (the caller's constant element size); reason recorded in evidence
PARAM_LB = {
    "vecdb::base::change::cursor::ChangeCursor::<'a>::read_values": {
        3: (1, "size_of_t is the compile-time element size of the caller (SIZE_OF_T / SIZE_OF_U64); element types are "
               "not zero-sized")},
}


def decoder_bodies(P, O=None):
    """the tabled decoder roots plus every workspace function they (transitively) call that itself handles the
    untrusted bytes (a parameter of type byte slice or ChangeCursor): helpers split off a decoder stay covered."""
    roots = sorted(b for b in P.bodies if DECODERS.match(b))
    if O is None:
        return roots
    out = set(roots)
    for r in roots:
        for g in O.reach(r):
            G = P.bodies.get(g)
            if G is None or g in out or G.krate not in ("rawdb", "vecdb"):
                continue
            ptys = [G.locals[i]["ty"] for i in range(1, G.arg_count + 1)]
            if any(("[u8]" in t and "mut" not in t) or "ChangeCursor" in t for t in ptys):
                out.add(g)
    return sorted(out)


def run_sites(ctx, chk, bodies, prefix="D1"):
    P = ctx.P
    D = getattr(ctx, "_decode", None)
    if D is None:
        D = decode.Decode(P)
        ctx._decode = D
    total = 0
    kinds = {}
    for bid in bodies:
        F = P.bodies[bid]
        res = D.analyze(F)
        lbs = PARAM_LB.get(bid, {})
        for s in res["sites"]:
            total += 1
            ok = s["ok"]
            if not ok and s["kind"] == "chunks":
                # chunk size is a parameter with a tabled lower bound
                for l, (lb, why) in lbs.items():
                    if s["operands"] in (["_%d" % l], [F.name_of.get(l)]) and lb >= 1:
                        ok = True
                        s["why"] = "parameter lower bound (table): " + why
            kinds[s["kind"]] = kinds.get(s["kind"], 0) + 1
            short = bid.split("::")[-1] if "{closure" not in bid else "::".join(bid.split("::")[-2:])
            chk.oblige("%s %s: %s at %s discharged (%s)" % (prefix, _fn(bid), s["kind"], s["span"], s["why"]), ok,
                       detail=s, key="%s|%s|%s|%s" % (prefix, _fn(bid), s["kind"], "/".join(s["operands"])),
                       msg="potential panic / unbounded allocation on untrusted bytes: %s in %s (%s)" % (
                           s["kind"], _fn(bid), s["why"]))
    return total, kinds


def raw_copies_bounded(ctx, chk, rid):
    """shared by C17 and C20: every raw pointer copy OUT of a byte slice (the decoders' native-layout fast path, the
    mmap writer) reads no more than the slice holds. Scans every workspace body, not only the tabled decoders."""
    P = ctx.P
    D = getattr(ctx, "_decode", None)
    if D is None:
        D = decode.Decode(P)
        ctx._decode = D
    n = 0
    for bid in sorted(P.bodies):
        F = P.bodies[bid]
        if F.krate not in ("rawdb", "vecdb"):
            continue
        for s_ in D.raw_copy_sites(F):
            if not s_["operands"]:
                continue
            n += 1
            chk.oblige("%s %s: raw copy at %s stays inside its source slice (%s)" % (rid, _fn(bid), s_["span"], s_["why"]),
                       s_["ok"], detail=s_, key="%s|%s|raw-copy" % (rid, _fn(bid)),
                       msg="raw copy out of an input slice without a sufficient length check: %s (%s)" % (_fn(bid), s_["why"]))
    if n < 2:
        raise AnchorMissing("expected >= 2 raw copies out of slices (mmap writer, native-layout decoder), found %d" % n)


def _fn(bid):
    m = re.search(r"<impl vecdb::bytes::Bytes for (.*?)>::from_bytes(.*)$", bid)
    if m:
        return "Bytes for %s::from_bytes%s" % (m.group(1).split("::")[-1], m.group(2))
    parts = bid.split("::")
    tail = [p for p in parts[-3:]]
    return "::".join(tail)


def _closures_of(P, bid, acc=None):
    acc = acc if acc is not None else []
    for k in P.children.get(bid, []):
        acc.append(k)
        _closures_of(P, k, acc)
    return acc


def _reach_wo(F, s, targets, avoid):
    """can s reach a target without passing an `avoid` block?"""
    seen, st, av, tg = set(), [s], set(avoid), set(targets)
    while st:
        x = st.pop()
        if x in seen or x in av:
            continue
        seen.add(x)
        if x in tg:
            return True
        st.extend(F.succ(x))
    return False


def guards_of(ctx, F, target_block):
    """switches dominating target_block that have an edge from which target_block is unreachable."""
    O = ctx.O
    dom = F.dominators()
    out = []
    for b in F.reachable():
        t = F.blocks[b]["term"]
        if t["k"] != "switch" or b not in dom[target_block] or b == target_block:
            continue
        esc = [s for s in F.succ(b) if s != target_block and not O.can_reach(F, s, [target_block]) and s != target_block]
        if not esc:
            continue
        sl = O.slice_back(F, t["op"])
        vars_ = {F.name_of.get(l) for l in sl["locals"] if F.name_of.get(l)}
        binops = set()
        for l in sl["locals"]:
            for d in F.defs().get(l, []):
                if d[0] == "assign" and d[3]["k"] == "bin":
                    binops.add(d[3].get("op"))
        out.append({"block": b, "vars": vars_, "consts": {str(x) for x in sl["consts"]}, "calls": sl["calls"],
                    "fields": sl["fields"], "esc": esc, "binops": binops})
    return out


WHOLE_SCAN = re.compile(r".*Iterator>?::(find|find_map|any|all|position|max|max_by_key|max_by|min|fold|try_fold|"
                        r"try_for_each|for_each|next)$")
PROJECTION = re.compile(r"core::slice::<impl \[T\]>::(last|first|get|split_last|split_first)$|"
                        r".*Iterator>?::(last|nth|next_back)$")
RAW_UNDO = ("vecdb::variants::raw::inner::read_write::rollback::<impl vecdb::variants::raw::inner::read_write::"
            "ReadWriteRawVec<I, T, S>>::deserialize_then_undo_changes")


def raw_undo_validates_all(ctx, chk, rid):
    """shared by C17 (no panic on damaged records) and C16 (a refused rollback changes nothing)"""
    O, P = ctx.O, ctx.P
    F = O.body(RAW_UNDO)
    ua = O.need_sites(F, M(r".*ReadWriteRawVec::<.*>::update_at"), 1)
    for b in ua:
        t = F.blocks[b]["term"]
        propagated = any("Try>::branch" in n for s_ in F.succ(b) if F.blocks[s_]["term"]["k"] == "call"
                         for n in names(F.blocks[s_]["term"]))
        if propagated:
            chk.oblige("%s raw undo: update_at result is propagated" % rid, True)
            continue
        sl = O.slice_back(F, t["args"][1])
        src = {F.name_of.get(l) for l in sl["locals"] if F.name_of.get(l)} - {"bytes", "self"}
        good = []
        oks = [x for x, k in O.exit_kinds(F).items() if k == "ok"]
        errs = [x for x, k in O.exit_kinds(F).items() if k == "err"]
        for g in guards_of(ctx, F, b):
            if not (g["vars"] & src):
                continue
            if any(e in oks or O.can_reach(F, e, oks) for e in g["esc"]) or not any(
                    e in errs or O.can_reach(F, e, errs) for e in g["esc"]):
                continue    # not an error exit (e.g. the header of the applying loop itself)
            scan = any(WHOLE_SCAN.match(c) for c in g["calls"])
            proj = any(PROJECTION.match(c) for c in g["calls"])
            if scan and not proj and len(g["vars"] - {"bytes", "self"}) >= 2:
                good.append(g["block"])
        chk.oblige("%s raw undo: the indices applied by update_at (result only debug-asserted) are range-checked by a "
                   "scan over the whole list with an error exit before anything is applied" % rid, bool(good),
                   key="%s|raw-undo|indices-not-all-validated" % rid,
                   msg="an out-of-range slot index in a damaged change record reaches update_at: debug builds panic "
                       "after the vector is half rolled back, release builds silently drop the entry")


def run(ctx, chk):
    O, P = ctx.O, ctx.P
    global _BYTES, _POS
    import props.anchors as _anch
    _BYTES, _POS = _anch.cursor_fields(P)
    bodies = decoder_bodies(P, O)
    if len(bodies) < 40:
        raise AnchorMissing("expected >= 40 decoder bodies (incl. numeric/array impls and closures), found %d" % len(bodies))
    raw_copies_bounded(ctx, chk, "D10")
    for must in ("rawdb::region_metadata::RegionMetadata::from_bytes", "vecdb::base::header::inner::HeaderInner::from_bytes",
                 "vecdb::base::change::cursor::ChangeCursor::<'a>::read_values",
                 "vecdb::base::change::cursor::ChangeCursor::<'a>::check_remaining"):
        if must not in bodies:
            raise AnchorMissing("decoder %s not found" % must)
    total, kinds = run_sites(ctx, chk, bodies)
    if total < 20:   # 49 today; merging decoders into shared helpers legitimately lowers the count
        raise AnchorMissing("expected >= 20 potential panic/allocation sites in the decoders, found %d" % total)
    # check_remaining itself: checked addition and comparison against the slice length
    D = ctx._decode
    ens = D.ensures("vecdb::base::change::cursor::ChangeCursor::<'a>::check_remaining")
    want = (("add", ("f", 1, (_POS,)), ("l", 2)), ("len", (1, (_BYTES,))))
    chk.oblige("D2 check_remaining ensures pos + len <= bytes.len() on Ok (derived: %s)" % [
        (D.show(a), D.show(b)) for a, b in ens], want in ens, key="D2|check_remaining|ensures",
        msg="the cursor's bounds check must establish pos + n <= bytes.len() without overflow")
    # D3 validity checks of RegionMetadata::from_bytes
    F = O.body("rawdb::region_metadata::RegionMetadata::from_bytes")
    okb = [b for b in F.reachable() for st in F.blocks[b]["stmts"]
           if st[0] == "assign" and st[1]["l"] == 0 and st[2]["k"] == "agg" and st[2].get("variant") == "Ok"]
    if len(okb) != 1:
        raise AnchorMissing("RegionMetadata::from_bytes: expected one Ok construction, found %d" % len(okb))
    gs = guards_of(ctx, F, okb[0])
    ps = P.consts.get("rawdb::PAGE_SIZE", "4096")
    required = [
        ("slot size", lambda g: "rawdb::region_metadata::SIZE_OF_REGION_METADATA" in g["consts"] or ps in g["consts"]
         and not g["vars"]),
        ("id_len <= MAX_REGION_ID_LEN", lambda g: "id_len" in g["vars"] and (
            "1024" in g["consts"] or "rawdb::region_metadata::MAX_REGION_ID_LEN" in g["consts"])),
        ("id fits in the slot", lambda g: "id_len" in g["vars"] and (
            ps in g["consts"] or "rawdb::region_metadata::SIZE_OF_REGION_METADATA" in g["consts"])),
        ("start page-aligned", lambda g: "start" in g["vars"] and any("is_multiple_of" in c for c in g["calls"])),
        ("reserved >= PAGE_SIZE", lambda g: "reserved" in g["vars"] and "len" not in g["vars"] and (
            ps in g["consts"] or "rawdb::PAGE_SIZE" in g["consts"]) and not any("is_multiple_of" in c for c in g["calls"])),
        ("reserved page-aligned", lambda g: "reserved" in g["vars"] and any("is_multiple_of" in c for c in g["calls"])),
        ("len <= reserved", lambda g: {"len", "reserved"} <= g["vars"]),
        ("id is UTF-8", lambda g: any("from_utf8" in c for c in g["calls"])),
    ]
    for name, pred in required:
        chk.oblige("D3 RegionMetadata::from_bytes rejects invalid %s (guard dominating the Ok value)" % name,
                   any(pred(g) for g in gs), key="D3|RegionMetadata::from_bytes|%s" % name,
                   msg="a decoded metadata entry must satisfy the type's validity rules (%s)" % name)
    # D3 header verification
    F = O.body("vecdb::base::header::inner::HeaderInner::import_and_verify")
    okb = [b for b in F.reachable() for st in F.blocks[b]["stmts"]
           if st[0] == "assign" and st[1]["l"] == 0 and st[2]["k"] == "agg" and st[2].get("variant") == "Ok"]
    gs = guards_of(ctx, F, okb[0]) if okb else []
    for fld in ("header_version", "vec_version", "format"):
        chk.oblige("D3 HeaderInner::import_and_verify compares %s before accepting the header" % fld,
                   any(fld in g["fields"] for g in gs), key="D3|import_and_verify|%s" % fld,
                   msg="a stored header must be verified field by field")
    # D6 writer and reader agree on the validity rules: the id length bound is checked in *bytes* against the same
    # constant on both sides (validate_id at construction / rename, from_bytes at open)
    vid = O.body("rawdb::region_metadata::RegionMetadata::validate_id")
    agree = False
    for b in vid.reachable():
        t = vid.blocks[b]["term"]
        if t["k"] == "switch":
            sl = O.slice_back(vid, t["op"])
            if any(c in ("core::str::<impl str>::len", "alloc::string::String::len") for c in sl["calls"]) and (
                    "1024" in {str(x) for x in sl["consts"]} or "rawdb::region_metadata::MAX_REGION_ID_LEN" in sl["consts"]):
                agree = True
    chk.oblige("D6 validate_id bounds the id's *byte* length by MAX_REGION_ID_LEN, the bound from_bytes enforces", agree,
               key="D6|validate_id|byte-length-bound",
               msg="the writer must not accept a name the reader rejects (or that does not fit the slot): both sides bound "
                   "the encoded byte length by the same constant")
    # D7 every ChangeCursor read checks the whole window before it indexes or advances
    cur = "vecdb::base::change::cursor::ChangeCursor::<'a>::"
    chkrem = M(r"vecdb::base::change::cursor::ChangeCursor::<'a>::check_remaining", reach="must")
    for meth in ("read_u64", "read_stamp", "skip", "read_values"):
        B = O.body(cur + meth)
        a_sites = O.sites(B, chkrem)
        inn = O.seen_before(B, a_sites)
        adv = [b for b in B.reachable() for st in B.blocks[b]["stmts"]
               if st[0] == "assign" and any(isinstance(e, list) and e[0] == "f" and e[2] == _POS for e in st[1]["p"])]
        idx = [b for b, t in B.calls() if any(n.endswith("Index::index") or n.endswith("::get") or n.endswith("get_unchecked")
                                              for n in names(t)) and _BYTES in str(O.slice_back(B, t["args"][0])["fields"])]
        bad = [b for b in adv + idx if not inn[b]]
        chk.oblige("D7 ChangeCursor::%s: check_remaining precedes every access to `bytes` and every advance of `pos` "
                   "[%d accesses, %d advances]" % (meth, len(idx), len(adv)), bool(a_sites) and not bad,
                   key="D7|ChangeCursor::%s|unchecked-window" % meth,
                   msg="a record that ends inside a field must be refused: each read checks that the whole window lies "
                       "inside the record before touching it")
    # D4 Regions::fill skips a slot whose decode fails (the decode may sit in the loop of fill or in a closure of an
    # iterator chain of fill)
    FILL = "rawdb::regions::Regions::fill"
    FB = M(r"rawdb::region_metadata::RegionMetadata::from_bytes")
    hosts = [x for x in [FILL] + _closures_of(P, FILL) if O.sites(P.bodies[x], FB)]
    if not hosts:
        raise AnchorMissing("Regions::fill (and its closures): no call of RegionMetadata::from_bytes")
    for hid in hosts:
        F = O.body(hid) if hid == FILL else P.bodies[hid]
        for b in O.sites(F, FB):
            t = F.blocks[b]["term"]
            r = t["dest"]["l"]
            users = []
            for bb, tt in F.calls():
                if any(op_local(a) == r for a in tt["args"]):
                    users.append(names(tt)[0])
            propagates = any(("Try>::branch" in u or u.endswith("Try::branch")) or u.endswith("unwrap") or u.endswith("expect")
                             for u in users)
            if hid != FILL:
                # in a closure: the failure cannot become fill's error unless the closure returns a Result
                skip = not F.locals[0]["ty"].startswith("core::result::Result<")
            else:
                skip = False
                for bb in F.reachable():
                    tt = F.blocks[bb]["term"]
                    if tt["k"] == "switch":
                        dl = op_local(tt["op"])
                        for d in F.defs().get(dl, []):
                            if d[0] == "assign" and d[3]["k"] == "discr" and d[3]["place"]["l"] == r:
                                # the Err edge returns to the loop (can reach the decode call again)
                                for s_ in F.succ(bb):
                                    if O.can_reach(F, s_, [b]):
                                        skip = True
            chk.oblige("D4 Regions::fill: a slot that fails to decode is skipped (no ?/unwrap on the decode result; the "
                       "error edge continues the loop)", (not propagates) and skip, detail={"users": users, "in": hid},
                       key="D4|Regions::fill|skip-bad-slot",
                       msg="a metadata slot that fails validation must be ignored at open without disturbing the valid ones")
    # D9 the position at which truncated values are restored is COMPUTED from validated fields (prev_stored_len -
    # truncated_count, checked), never taken from the record as it is
    pcd = [b for b in P.bodies if b.endswith("::parse_change_data") and "closure" not in b]
    if not pcd:
        raise AnchorMissing("parse_change_data not found")
    Dd = ctx._decode
    for bid in pcd:
        Fp = O.body(bid)
        adt = P.adts.get("vecdb::base::change::ChangeData") or next((a for n, a in P.adts.items() if n.endswith("::ChangeData")), None)
        hits = 0
        for b in Fp.reachable():
            for st in Fp.blocks[b]["stmts"]:
                if st[0] == "assign" and st[2]["k"] == "agg" and str(st[2].get("adt", "")).endswith("ChangeData") and adt:
                    fields = [f["name"] for f in adt["variants"][0]["fields"]]
                    if "truncated_start" not in fields:
                        continue
                    e = Dd.expr(Fp, st[2]["ops"][fields.index("truncated_start")])
                    hits += 1
                    ok = e[0] == "sub" or "checked_sub" in str(O.slice_back(Fp, st[2]["ops"][fields.index("truncated_start")])["calls"])
                    chk.oblige("D9 parse_change_data: ChangeData.truncated_start is computed by a (checked) subtraction of "
                               "decoded lengths (%s)" % Dd.show(e), ok, key="D9|parse_change_data|truncated_start-unvalidated",
                               msg="a start position decoded from the record and used unvalidated restores the truncated "
                                   "values at arbitrary slots, or overflows `truncated_start + i`")
        if not hits:
            raise AnchorMissing("parse_change_data: construction of ChangeData with field truncated_start not found")
    # D8 change records: the slot indices of a raw change record are applied by update_at whose result is only
    # debug-asserted; every one of them must have been range-checked (a whole-collection scan with an error exit)
    raw_undo_validates_all(ctx, chk, "D8")
    # D4b a decoded slot is registered under the index its bytes were addressed with
    F = O.body(FILL)
    rf = O.need_sites(F, M(r"rawdb::region::Region::from"), 1)
    dec = O.need_sites(F, M(r"rawdb::region_metadata::RegionMetadata::from_bytes", reach=True), 1)

    def induction(sl):
        out = set()
        for l in sl["locals"]:
            ds = F.defs().get(l, [])
            for d in ds:
                if d[0] == "call" and any(n.endswith("::next") for n in names(d[2])):
                    out.add(("next", d[1]))
                if d[0] == "call" and any(n.endswith("Iterator::enumerate") for n in names(d[2])):
                    out.add(("enumerate", d[1]))
            if len(ds) > 1:
                out.add(("counter", l))
        return out

    def lockstep(counter, nxt):
        """every trip round the loop from the `next` call back to it passes an update of the counter"""
        upd = [d[1] for d in F.defs().get(counter, []) if O.can_reach(F, nxt, [d[1]])]
        return bool(upd) and not any(_reach_wo(F, s_, [nxt], upd) for s_ in F.succ(nxt))

    for b in rf:
        idx = induction(O.slice_back(F, F.blocks[b]["term"]["args"][1]))
        byts = set()
        for d_ in dec:
            for a_ in F.blocks[d_]["term"]["args"][:1]:
                byts |= induction(O.slice_back(F, a_))
        common = idx & byts
        paired = [(c_[1], n_[1]) for c_ in idx if c_[0] == "counter" for n_ in byts if n_[0] == "next"
                  and lockstep(c_[1], n_[1])]
        chk.oblige("D4b Regions::fill: the index a region is registered under derives from the loop variable that "
                   "addressed its slot bytes (shared induction %s, lockstep counters %s)" % (
                       sorted(x[0] for x in common), len(paired)), bool(common) or bool(paired),
                   key="D4b|Regions::fill|slot-index-source",
                   msg="a skipped (invalid) slot must not shift the indices of the valid ones after it: the next metadata "
                       "write of such a region would land in its neighbour's slot")
    chk.cov["decoder_bodies"] = len(bodies)
    chk.cov["sites_by_kind"] = kinds
    chk.cov["param_lower_bounds"] = {k: {str(i): v[1] for i, v in d.items()} for k, d in PARAM_LB.items()}
    chk.sample({"decoder": "ChangeCursor::read_u64", "facts_from": "check_remaining(8)? Continue edge",
                "discharges": "self.pos + 8 overflow assert, bytes[pos..pos+8], pos += 8"})
    chk.assumptions += ["debug-build MIR: arithmetic overflow appears as Assert terminators and counts as a panic site",
                        "Layout::from / Pages users doing arithmetic on decoded-and-accepted values are outside the decoder set"]


def thorough(ctx, chk):
    """derive-generated Bytes impls: analyse the test targets of vecdb_derive (macro expansions are only visible
    in a crate that uses the derive)."""
    import glob
    import os
    import shutil
    import tempfile
    import facts
    import program
    repo = os.environ.get("VERIF_REPO_OVERRIDE") or facts.REPO
    tests = sorted(os.path.splitext(os.path.basename(f))[0]
                   for f in glob.glob(os.path.join(repo, "crates", "vecdb_derive", "tests", "*.rs")))
    if not tests:
        raise AnchorMissing("vecdb_derive has no test targets")
    out = tempfile.mkdtemp(prefix="verif-derive-")
    try:
        facts.extract(repo, "derive-tests", out, packages=("vecdb_derive",), dump=tuple(tests), extra_args=("--tests",),
                      require=tuple(t + ".test" for t in tests))
        n = 0
        for t in tests:
            crate = facts.load_crate(os.path.join(out, t + ".test.json"))
            P2 = program.Program([crate])
            D = decode.Decode(P2)
            for bid, body in sorted(P2.bodies.items()):
                if re.search(r"vecdb::bytes::Bytes for .*>::from_bytes$", bid) or (
                        bid.endswith("::from_bytes") and "Bytes" in (body.trait_method or "")):
                    n += 1
                    res = D.analyze(body)
                    bad = [s for s in res["sites"] if not s["ok"]]
                    delegates = any(any(x.endswith("Bytes::from_bytes") for x in names(tm)) for _, tm in body.calls())
                    chk.oblige("D5 derive-generated %s (test target %s): no undischarged panic/allocation site and "
                               "delegates to the inner from_bytes" % (bid.split(" for ")[-1], t), not bad and delegates,
                               detail={"sites": bad}, key="D5|derive|%s|%s" % (t, bid.split(" for ")[-1]),
                               msg="a derived decoder must not add panic sites of its own")
        if n < 3:
            raise AnchorMissing("expected >= 3 derive-generated from_bytes bodies in vecdb_derive test targets, found %d" % n)
        chk.cov["derive_generated_decoders"] = n
    finally:
        shutil.rmtree(out, ignore_errors=True)
