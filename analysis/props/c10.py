"""C10 — concurrent work on distinct regions is isolated: lock-discipline clauses (DESIGN §4 C10)."""
from order import M, names
from program import op_place
from common import AnchorMissing

EXPLANATION = (
    "Lock-discipline rules over the MIR of rawdb: multi-field snapshots of a region's placement are read through "
    "one metadata guard; a relocation target is reserved under the same layout write guard that made the placement "
    "decision and every reservation is taken back on all non-exceptional exits; the layout lock is never held at a "
    "call that reaches set_min_len (the window other threads allocate in), while the remap itself runs under the "
    "mmap and file write locks; freed extents become reusable only in promote_pending_holes, which must be gated "
    "against outstanding readers (mmap write lock). Per-thread content equality is not decided.")

META_READ = M(r"rawdb::region_metadata::RegionMetadata::(start|len|reserved)")
WRITE_WITH = "rawdb::region::Region::write_with"
RESERVE = M(r"rawdb::layout::Layout::reserve")
TAKE = M(r"rawdb::layout::Layout::take_reserved", reach="must")


def same_guard(ctx, chk, fn, floor):
    O = ctx.O
    body = O.body(fn)
    rs = O.need_sites(body, META_READ, floor)
    guards = {}
    for b in rs:
        t = body.blocks[b]["term"]
        guards[b] = O.guard_local_of(body, t["args"][0])
    gl = set(guards.values())
    ok = len(gl) == 1 and None not in gl and len(body.defs().get(next(iter(gl)), [])) == 1
    chk.oblige("A10.1 same_guard(%s: %d placement reads through one META guard)" % (fn, len(rs)), ok,
               detail={"guard_local_per_read": {body.blocks[b]["term"].get("span"): g for b, g in guards.items()}},
               key="A10.1|same_guard|%s" % fn,
               msg="(start, len, reserved) of a region must be read as one snapshot under a single metadata guard")

import props.anchors as anchors


def hole_amount_conserved(ctx, chk, rid):
    """shared by C10 and C12: what write_with takes out of the hole map is exactly what it adds to a reservation.
    Symbolic comparison of the operands (expression trees of engine D): for the hole directly behind the region
    (start + reserved) the amount removed is `new_reserved - reserved` for the `new_reserved` handed to set_reserved;
    for a relocation target the amount removed is the amount reserved."""
    import decode
    O, P = ctx.O, ctx.P
    D = getattr(ctx, "_decode", None) or decode.Decode(P)
    ctx._decode = D
    ww = O.body(WRITE_WITH)
    rc = O.need_sites(ww, M(r"rawdb::layout::Layout::remove_or_compress_hole"), 2)
    srs = O.sites(ww, M(r"rawdb::region_metadata::RegionMetadata::set_reserved"))
    rvs = O.sites(ww, RESERVE)
    for b in rc:
        t = ww.blocks[b]["term"]
        st, sz = D.expr(ww, t["args"][1]), D.expr(ww, t["args"][2])
        if st[0] == "add":
            cands = [D.expr(ww, ww.blocks[s_]["term"]["args"][1]) for s_ in srs if O.can_reach(ww, b, [s_])]
            ok = any(sz == ("sub", n_, r_) for n_ in cands for r_ in st[1:])
            what = "adjacent hole: removed %s, reservation set to %s" % (D.show(sz), [D.show(c_) for c_ in cands])
        else:
            cands = [D.expr(ww, ww.blocks[s_]["term"]["args"][2]) for s_ in rvs if O.can_reach(ww, b, [s_])]
            ok = bool(cands) and all(sz == c_ for c_ in cands) and sz != ("?",)
            what = "relocation target: removed %s, reserved %s" % (D.show(sz), [D.show(c_) for c_ in cands])
        chk.oblige("%s write_with: the amount taken out of the hole map equals the amount claimed (%s)" % (rid, what), ok,
                   key="%s|write_with|hole-amount-mismatch" % rid,
                   msg="claiming more than was removed from the hole map makes the region's reserve overlap its "
                       "neighbour (compaction punches it, the next allocation hands it out); claiming less leaks space")


def create_checks_under_lock(ctx, chk, rid):
    """Regions::create mutates the table before it notices a duplicate id: the existence test that guards it must run
    under the same REGIONS write guard (check and insert atomic)"""
    O, P = ctx.O, ctx.P
    cr = O.body("rawdb::Database::create_region_if_needed")
    cs = O.need_sites(cr, M(r"rawdb::regions::Regions::create"), 1)
    lookups = M(r"rawdb::regions::Regions::(get_from_id|get_index_from_id|contains)|std::collections::hash::map::HashMap::<K, V, S(, A)?>::(get|contains_key)")
    for b in cs:
        g = O.guard_local_of(cr, cr.blocks[b]["term"]["args"][0])
        def through_guard(x):
            a0 = cr.blocks[x]["term"]["args"][0]
            if O.guard_local_of(cr, a0) == g:
                return True
            # through an accessor of the guarded table (`regions.id_to_index().get(id)`)
            return g in O.slice_back(cr, a0)["locals"]
        ls = [x for x in O.sites(cr, lookups) if g is not None and through_guard(x) and O.can_reach(cr, x, [b])]
        held = O.held_classes(cr, b)
        chk.oblige("%s create_region_if_needed: the id is looked up through the REGIONS write guard that Regions::create "
                   "uses [%d lookup(s) on that guard]" % (rid, len(ls)), bool(ls) and ("REGIONS", "W") in held,
                   key="%s|create_region_if_needed|check-outside-write-lock" % rid,
                   msg="an existence test made before the write lock is taken leaves a window in which another thread "
                       "creates or renames a region to the same id; create then fails after having changed the table")


def hole_target_removed(ctx, chk, rid):
    """shared by C10 and C12"""
    O = ctx.O
    ww = O.body(WRITE_WITH)
    lm = O.sites(ww, M(r"rawdb::Database::layout_mut"))
    rm = [b for b in O.sites(ww, M(r"rawdb::layout::Layout::remove_or_compress_hole"))
          if ("LAYOUT", "W") in O.held_classes(ww, b)]
    st = O.typestate(ww, False, rm, lm)
    n = 0
    bad = []
    for b in O.sites(ww, RESERVE):
        sl = O.slice_back(ww, ww.blocks[b]["term"]["args"][1])
        if "rawdb::layout::Layout::find_smallest_adequate_hole" in sl["calls"] and "rawdb::layout::Layout::len" not in sl["calls"]:
            n += 1
            if not st[b]:
                bad.append(ww.blocks[b]["term"].get("span"))
    chk.oblige("%s write_with: a relocation target taken from the hole map is removed from it (remove_or_compress_hole "
               "under LAYOUT:W) before it is reserved [%d hole-derived reservation(s)]" % (rid, n), n >= 1 and not bad,
               detail={"sites": bad}, key="%s|write_with|hole-target-still-listed" % rid,
               msg="while the bytes are copied into a hole that is still listed as reusable, compaction may punch it and "
                   "allocation may hand it out again")


def data_before_placement(ctx, chk, rid):
    """shared by C09 and C10: in write_with the copy of the old bytes and the write of the new ones precede
    RegionMetadata::set_start and Layout::move_region (readers snapshot (start, len) under the metadata lock)."""
    O = ctx.O
    ww = O.body(WRITE_WITH)
    ss = O.need_sites(ww, M(r"rawdb::region_metadata::RegionMetadata::set_start"), 1)
    for a, what in ((M(r"rawdb::Database::copy"), "Database::copy (old bytes)"), (M(r"rawdb::Database::write"), "Database::write (new bytes)")):
        for b, bl in ((M(r"rawdb::region_metadata::RegionMetadata::set_start"), "RegionMetadata::set_start"),
                      (M(r"rawdb::layout::Layout::move_region"), "Layout::move_region")):
            bad = O.precedes(ww, a, b)
            chk.oblige("%s precedes(write_with: %s before %s)" % (rid, what, bl), not bad and bool(O.sites(ww, b)),
                       key="%s|write_with|%s-before-%s" % (rid, what.split(" ")[0].split("::")[-1], bl.split("::")[-1]),
                       msg="a region's new start must be published only after its bytes have been copied there: a reader "
                           "that snapshots (start, len) in between reads bytes that are not the region's")


def run(ctx, chk):
    O, P, L = ctx.O, ctx.P, ctx.L
    # A10.1
    anchors.check(ctx, chk, ['reserve', 'take_reserved', 'set_min_len_remap', 'create_reader', 'reader_new_mmap', 'remove_region_pending'])
    same_guard(ctx, chk, "rawdb::reader::Reader::new", 2)
    same_guard(ctx, chk, "rawdb::region::Region::batch_write_each", 2)
    same_guard(ctx, chk, WRITE_WITH, 3)
    same_guard(ctx, chk, "rawdb::Database::punch_holes", 3)
    same_guard(ctx, chk, "rawdb::layout::Layout::remove_region", 2)
    # A10.2 reservation pairing
    ww = O.body(WRITE_WITH)
    rsv = O.need_sites(ww, RESERVE, 2)
    O.need_sites(ww, TAKE, 1)
    bad = O.followed_by(ww, RESERVE, TAKE, exits="ok")
    chk.oblige("A10.2 followed_by(write_with: Layout::reserve -> Layout::take_reserved, ok exits) [%d sites]" % len(rsv),
               not bad, key="A10.2|followed_by|write_with|take_reserved",
               msg="every reservation must be taken back before write_with returns Ok")
    # error exits that leave a reservation behind: only the listed internal-invariant errors
    allowed_origin = {"rawdb::Database::copy": "OverlappingCopyRanges: unreachable while extents are disjoint",
                      "rawdb::layout::Layout::move_region": "RegionIndexMismatch: internal invariant"}
    ek = dict(O.exit_kinds(ww))
    # `return helper(..)` with the helper inlined: the error exits are the places where the helper produced its
    # error (one merged `_0 = move r` block would mix the origins of all helpers)
    def err_sources(l, depth=0):
        out = set()
        for d in ww.defs().get(l, []):
            if d[0] == "call":
                if any("from_residual" in n for n in names(d[2])):
                    out.add(d[1])
            elif d[3]["k"] == "agg" and d[3].get("variant") == "Err":
                out.add(d[1])
            elif d[3]["k"] == "use" and d[3].get("ops") and depth < 6:
                pl = op_place(d[3]["ops"][0])
                if pl is not None and not pl["p"]:
                    out |= err_sources(pl["l"], depth + 1)
        return out
    for e in [x for x, k_ in ek.items() if k_ == "err"]:
        for st_ in ww.blocks[e]["stmts"]:
            if st_[0] == "assign" and st_[1]["l"] == 0 and not st_[1]["p"] and st_[2]["k"] == "use" and st_[2].get("ops"):
                pl = op_place(st_[2]["ops"][0])
                srcs = err_sources(pl["l"]) if pl is not None and not pl["p"] else set()
                if srcs:
                    del ek[e]
                    for x in srcs:
                        ek[x] = "err"
    tset = set(O.sites(ww, TAKE))
    leaks = []
    for e, kind in ek.items():
        if kind != "err":
            continue
        # is e reachable from a reserve site without passing take_reserved?
        reach_wo = False
        for r in rsv:
            seen = set()
            st = list(ww.succ(r))
            while st:
                x = st.pop()
                if x in seen or x in tset:
                    continue
                seen.add(x)
                if x == e:
                    reach_wo = True
                    break
                st.extend(ww.succ(x))
        if not reach_wo:
            continue
        t = ww.blocks[e]["term"]
        origin = set()
        if t["k"] == "call" and t["args"] and (t["dest"]["l"] == 0 or any("from_residual" in n for n in names(t))):
            origin = O.result_origin(ww, t["args"][0])
        for st in ww.blocks[e]["stmts"]:
            if st[0] == "assign" and (st[1]["l"] == 0 or (st[2]["k"] == "agg" and st[2].get("variant") == "Err")):
                for o in st[2].get("ops", []):
                    origin |= O.result_origin(ww, o)
        leaks.append((ww.blocks[e]["term"].get("span") or "?", sorted(origin)))
    unexpected = [l for l in leaks if not l[1] or not set(l[1]) <= set(allowed_origin)]
    chk.oblige("A10.2 error exits of write_with that keep a reservation: only via %s [%d such exits]" % (
        sorted(allowed_origin), len(leaks)), not unexpected, detail={"exits": leaks, "unexpected": unexpected},
        key="A10.2|err-exit|write_with|reservation-leak",
        msg="an error exit after Layout::reserve must take the reservation back (except the listed internal-invariant errors)")
    # A10.2b reserve under the same LAYOUT:W guard as the placement decision
    decide = M(r"rawdb::layout::Layout::(find_smallest_adequate_hole|len)")
    dsites = O.need_sites(ww, decide, 2)
    dguards = {O.guard_local_of(ww, ww.blocks[b]["term"]["args"][0]) for b in dsites}
    for b in rsv:
        held = O.held_classes(ww, b)
        g = O.guard_local_of(ww, ww.blocks[b]["term"]["args"][0])
        ok = ("LAYOUT", "W") in held and g is not None and g in dguards
        chk.oblige("A10.2b held_at(write_with: Layout::reserve, LAYOUT:W) with the guard of the placement decision", ok,
                   detail={"held": sorted(held), "reserve_guard": g, "decision_guards": sorted(str(x) for x in dguards)},
                   key="A10.2b|held_at|write_with|reserve",
                   msg="the relocation target must be reserved before the layout lock that chose it is released")
    # A10.2c a placement decision is *claimed* before the layout lock that made it is released: after every
    # layout_mut() in write_with, file growth and data writes happen only after a claim (set_reserved /
    # Layout::reserve) was made while LAYOUT:W was still held (Layout::len() must already cover the new space
    # when other threads allocate in the window that A10.3 opens)
    lm = O.need_sites(ww, M(r"rawdb::Database::layout_mut"), 2)
    claim = M(r"rawdb::layout::Layout::reserve|rawdb::region_metadata::RegionMetadata::set_reserved",
              where=lambda body, b, t: ("LAYOUT", "W") in O.held_classes(body, b))
    claims = O.sites(ww, claim)
    st = O.typestate(ww, True, claims, lm)
    uses = O.sites(ww, M(r"rawdb::Database::(write|copy|set_min_len)"))
    bad = [b for b in uses if not st[b]]
    chk.oblige("A10.2c write_with: growth/data writes after layout_mut() only once the new space is claimed under "
               "LAYOUT:W [%d claim sites, %d uses]" % (len(claims), len(uses)), not bad and len(claims) >= 1,
               detail={"unclaimed_uses": [ww.blocks[b]["term"].get("span") for b in bad]},
               key="A10.2c|typestate|write_with|claim-before-release",
               msg="the space a region grows into must be claimed (set_reserved / Layout::reserve) before the layout "
                   "lock is released, or another thread is handed the same extent while the file is grown")
    # A10.2d a hole chosen as relocation target is taken out of the reusable-hole maps under the deciding LAYOUT:W
    # guard (reserving it is not enough: compaction punches what the hole map lists)
    hole_target_removed(ctx, chk, "A10.2d")
    # A10.11 check-and-insert of a region id is atomic
    create_checks_under_lock(ctx, chk, "A10.11")
    # A10.12 = B05.3d the hole maps (two indexes of one set) are changed only through insert_hole / remove_hole
    from props.c05 import layout_map_writers
    layout_map_writers(ctx, chk, "A10.12")
    # A10.13 what leaves the hole map is what is claimed
    hole_amount_conserved(ctx, chk, "A10.13")
    # A10.6 a Reader pins its region: it owns a Region clone (removal is refused while it is alive)
    rd = P.adts.get("rawdb::reader::Reader")
    if rd is None:
        raise AnchorMissing("rawdb::reader::Reader not found")
    pins = [f["name"] for f in rd["variants"][0]["fields"] if f["ty"] == "rawdb::region::Region"]
    rn = O.body("rawdb::reader::Reader::new")
    cloned = False
    for b in rn.reachable():
        for stt in rn.blocks[b]["stmts"]:
            if stt[0] == "assign" and stt[2]["k"] == "agg" and stt[2].get("adt") == "rawdb::reader::Reader":
                for o in stt[2]["ops"]:
                    if ("m" in o or "c" in o) and rn.locals[(o.get("m") or o.get("c"))["l"]]["ty"] == "rawdb::region::Region":
                        sl = O.slice_back(rn, o)
                        cloned = any(c.endswith("Clone>::clone") or c.endswith("Clone::clone") for c in sl["calls"]) \
                            and 1 in sl["params"]
    chk.oblige("A10.6 Reader owns a clone of its Region (field(s) %s) taken from the region it reads" % pins,
               bool(pins) and cloned, key="A10.6|reader-pins-region",
               msg="a live Reader must keep its region referenced, otherwise the region can be removed and its extent "
                   "reused while the reader still returns bytes from it")
    # A10.7 a relocated region's new placement is published only after its bytes are there
    data_before_placement(ctx, chk, "A10.7")
    # A10.8 = B12.2: compaction punches only under the locks that keep writers and allocators out
    from props.c12 import punch_lock_rules
    punch_lock_rules(ctx, chk, "A10.8")
    # A10.9 in-place growth looks at everything that may lie behind the region, including other threads' in-flight
    # reservations
    from props.c05 import occupied_maps_consulted
    occupied_maps_consulted(ctx, chk, "A10.9", ["start_to_reserved", "start_to_hole", "pending_holes"])
    from props.c05 import len_takes_greatest
    len_takes_greatest(ctx, chk, "A10.14")
    # A10.10 = E3: sources that cache absolute offsets pin the placement they were computed from
    from props.c20 import pins
    pins(ctx, chk, "A10.10")
    # A10.3 LAYOUT is not held at any call that reaches set_min_len
    smm = M(r"rawdb::Database::set_min_len", reach=True)
    n = 0
    for body in P.bodies.values():
        if body.krate != "rawdb":
            continue
        for b in O.sites(body, smm):
            n += 1
            held = O.held_classes(body, b)
            ok = not any(c == "LAYOUT" for c, m in held)
            chk.oblige("A10.3 not held_at(%s: call reaching set_min_len [%s], LAYOUT)" % (
                body.id, names(body.blocks[b]["term"])[0].split("::")[-1]), ok, detail={"held": sorted(held)},
                key="A10.3|not_held|%s|LAYOUT" % body.id,
                msg="the layout lock must be released before the file is grown (other threads allocate meanwhile, "
                    "protected by Layout::reserve)")
    if n < 2:
        raise AnchorMissing("expected >= 2 rawdb call sites reaching set_min_len, found %d" % n)
    sm = O.body("rawdb::Database::set_min_len")
    for m in (M(r"rawdb::mmap::create_mmap"), M(r"std::fs::File::set_len")):
        for b in O.need_sites(sm, m, 1):
            held = O.held_classes(sm, b)
            ok = ("MMAP", "W") in held and ("FILE", "W") in held
            chk.oblige("A10.3 held_at(set_min_len: %s, MMAP:W & FILE:W)" % m.label.split("::")[-1], ok,
                       detail={"held": sorted(held)}, key="A10.3|held_at|set_min_len|%s" % m.label.split("::")[-1],
                       msg="the file may only be resized and remapped with the mmap and file write locks held")
    # the remap assigns through the MMAP:W guard
    # A10.5 reuse gating against outstanding readers
    fl = O.body("rawdb::Database::flush")
    for b in O.need_sites(fl, M(r"rawdb::layout::Layout::promote_pending_holes"), 1):
        held = O.held_classes(fl, b)
        chk.oblige("A10.5 held_at(Database::flush: promote_pending_holes, MMAP:W) [reader barrier]",
                   ("MMAP", "W") in held, detail={"held": sorted(held), "site": fl.blocks[b]["term"].get("span")},
                   key="A10.5|held_at|promote_pending_holes|MMAP:W",
                   msg="freed extents become reusable while Readers created before the relocation may still be alive "
                       "(a Reader holds MMAP:R for life; nothing gates promotion on outstanding readers)")
    chk.sample({"rule": "A10.3", "sites_reaching_set_min_len": n})
    chk.assumptions.append("A10.5 demands one particular barrier mechanism (mmap write lock); see DESIGN.md §4 C10")
