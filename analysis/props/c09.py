"""C09 — a concurrent reader never sees a length whose elements are not there: publication-order
clauses (DESIGN §4 C09)."""
import re

from order import M, names
from program import op_place
from common import AnchorMissing

EXPLANATION = (
    "Publication-order rules over the MIR of the two write() implementations and of every read path of the "
    "read-only vector types: data and region length are written before the page-index entry that describes them, "
    "the index entry before the shared length, index and length change under the pages write lock; SharedLen "
    "stores with Release and loads with Acquire and nobody else touches the atomic; readers load the shared length "
    "before they snapshot (start,len) of the region; bytes described by a published page entry are only "
    "overwritten under the pages write lock. Prefix equality of values and monotonicity are not decided.")

RAW_WRITE = ("vecdb::variants::raw::inner::read_write::any_stored_vec::<impl vecdb::traits::any_stored::AnyStoredVec "
             "for vecdb::variants::raw::inner::read_write::ReadWriteRawVec<I, T, S>>::write")
CMP_WRITE = ("vecdb::variants::compressed::inner::read_write::any_stored_vec::<impl vecdb::traits::any_stored::"
             "AnyStoredVec for vecdb::variants::compressed::inner::read_write::ReadWriteCompressedVec<I, T, S>>::write")
TW = M(r"rawdb::region::Region::truncate_write", reach="must")
USL = M(r"vecdb::base::read_write::ReadWriteBaseVec::<I, T>::update_stored_len|vecdb::base::shared_len::SharedLen::set", reach=True, label="update_stored_len")
CPUSH = M(r"vecdb::variants::compressed::inner::pages::Pages::checked_push")
GET = "vecdb::base::shared_len::SharedLen::get"
SET = "vecdb::base::shared_len::SharedLen::set"
MK_READER = "rawdb::region::Region::create_reader"
ORD = {"0": "Relaxed", "1": "Release", "2": "Acquire", "3": "AcqRel", "4": "SeqCst"}

import props.anchors as anchors


def _short(bid):
    s = re.sub(r"<impl [^>]*? for ([^>]*?)(<.*?>)?>::", lambda m: m.group(1).split("::")[-1] + "::", bid)
    s = re.sub(r"::<[^>]*>", "", s)
    return "::".join(s.split("::")[-2:])


def run(ctx, chk):
    O, P, L = ctx.O, ctx.P, ctx.L
    rw = O.body(RAW_WRITE)
    anchors.check(ctx, chk, ['update_stored_len', 'stored_len', 'truncate_write', 'pages_push', 'pages_truncate', 'pages_flush', 'create_reader', 'reader_new_mmap', 'write_to_mmap'])
    cw = O.body(CMP_WRITE)
    # B09.1
    us = O.need_sites(rw, USL, 1)
    O.need_sites(rw, TW, 2)
    bad = O.precedes(rw, TW, USL)
    chk.oblige("B09.1 precedes(raw write: Region::truncate_write before update_stored_len) [%d site(s)]" % len(us),
               not bad, key="B09.1|raw-write|update_stored_len",
               msg="data and region length must be written before the shared length is published")
    # B09.2
    O.need_sites(cw, TW, 2)
    cps = O.need_sites(cw, CPUSH, 2)
    uss = O.need_sites(cw, USL, 2)
    bad = O.precedes(cw, TW, CPUSH)
    chk.oblige("B09.2 precedes(compressed write: truncate_write before Pages::checked_push) [%d sites]" % len(cps),
               not bad, key="B09.2|compressed-write|checked_push",
               msg="page data must be written before the index entry that describes it")
    late = O.never_after(cw, USL, CPUSH)
    chk.oblige("B09.2 never_after(compressed write: no Pages::checked_push after update_stored_len) [%d sites]" % len(uss),
               not late, key="B09.2|compressed-write|update_stored_len",
               msg="the page index must be updated before the shared length is published")
    bad = O.precedes(cw, M(r"vecdb::variants::compressed::inner::pages::Pages::truncate"), USL)
    chk.oblige("B09.2 precedes(compressed write: Pages::truncate (index rewrite starts) before update_stored_len)",
               not bad, key="B09.2|compressed-write|truncate-before-len",
               msg="the page index must be updated before the shared length is published")
    # one critical section: every index change that leads to a length publication uses the PAGES:W guard
    # that is held at that publication
    idx_ops = M(r"vecdb::variants::compressed::inner::pages::Pages::(truncate|checked_push|reset)")
    for u in uss:
        held_locals = [l for c, m, l in L.held_items(cw, u) if (c, m) == ("PAGES", "W")]
        others = []
        for b in O.sites(cw, idx_ops):
            if O.can_reach(cw, b, [u]):
                g = O.guard_local_of(cw, cw.blocks[b]["term"]["args"][0])
                if g not in held_locals:
                    others.append(cw.blocks[b]["term"].get("span"))
        chk.oblige("B09.2 same_guard(compressed write: index truncate/push and the length publication at %s in one "
                   "PAGES:W critical section)" % cw.blocks[u]["term"].get("span"), bool(held_locals) and not others,
                   detail={"index_ops_outside": others}, key="B09.2|same_guard|compressed-write|critical-section",
                   msg="the page index must not be visible in an intermediate state (pages removed but length still "
                       "published): index rewrite and length publication form one critical section")
    for b in uss + cps:
        held = O.held_classes(cw, b)
        nm = names(cw.blocks[b]["term"])[0].split("::")[-1]
        chk.oblige("B09.2 held_at(compressed write: %s, PAGES:W)" % nm, ("PAGES", "W") in held,
                   detail={"held": sorted(held)}, key="B09.2|held_at|%s|PAGES:W" % nm,
                   msg="page index and shared length must change atomically for readers (under the pages write lock)")
    # B09.3 atomics
    n_acc = 0
    for bid, body in P.bodies.items():
        for b, t in body.calls():
            nm = names(t)[0]
            m = re.match(r"core::sync::atomic::(?:AtomicUsize|Atomic::<usize>)::(\w+)$", nm)
            if not m or not bid.startswith("vecdb::base::shared_len"):
                continue
            op = m.group(1)
            n_acc += 1
            if op == "new":
                continue
            v = O.variant_of(body, t["args"][-1])
            want = {"load": "Acquire", "store": "Release"}.get(op)
            fn = bid.split("::")[-1]
            ok = want is not None and v == want and ((op == "load" and bid == GET) or (op == "store" and bid == SET))
            chk.oblige("B09.3 const_operand(%s: Atomic::%s ordering = %s) [got %s]" % (fn, op, want, v), ok,
                       key="B09.3|ordering|%s|%s" % (fn, op),
                       msg="the shared length must be published with Release and read with Acquire, through get/set only")
    if n_acc < 3:
        raise AnchorMissing("expected AtomicUsize new/load/store in vecdb::base::shared_len, found %d" % n_acc)
    sl = P.adts.get("vecdb::base::shared_len::SharedLen")
    if sl is None:
        raise AnchorMissing("SharedLen not found")
    # B09.4 reader side
    # a closure that only builds an error value (ok_or_else(|| Error::IndexTooHigh { len: self.len(), .. })) does
    # not bound any read with the length it loads
    loads = M(re.escape(GET), reach=True, label="reaches SharedLen::get",
              closure_filter=lambda K: not K.locals[0]["ty"].endswith("::Error"))
    mkr = M(re.escape(MK_READER) + r"|rawdb::reader::Reader::new", reach=True, label="reaches Region::create_reader")
    ro_bodies = [b for bid, b in sorted(P.bodies.items()) if b.krate == "vecdb" and (
        "::read_only::" in bid or "ReadOnlyRawVec" in bid or "ReadOnlyCompressedVec" in bid or "ReadOnlyBaseVec" in bid
        or bid.endswith("::from_read_only"))]
    n_paths = 0
    for body in ro_bodies:
        a = O.sites(body, mkr)
        if not a:
            continue
        n_paths += 1
        late = O.never_after(body, mkr, loads)
        # a single call that does both is fine only if the callee is itself one of the checked bodies
        both = [b for b in a if O.matches(body, b, loads)]
        unchecked = []
        for b in both:
            kind, tg = P.resolve(body.blocks[b]["term"]["callee"])
            for g in tg:
                if kind == "ws" and P.bodies[g] not in ro_bodies:
                    unchecked.append(g)
        chk.oblige("B09.4i %s: no shared-length load after the reader snapshot" % body.id, not late,
                   detail={"late_loads": [body.blocks[b]["term"].get("span") for b in late]},
                   key="B09.4i|%s" % body.id,
                   msg="a read-only path must load the shared length before it creates the rawdb Reader "
                       "(a length loaded after the (start,len) snapshot can exceed what the snapshot covers)")
        for g in sorted(set(unchecked)):
            gb = P.bodies[g]
            late2 = O.never_after(gb, mkr, loads)
            chk.oblige("B09.4i (callee) %s: no shared-length load after the reader snapshot" % g, not late2,
                       key="B09.4i|%s" % g, msg="length must be loaded before the reader snapshot")
    if n_paths < 4:
        raise AnchorMissing("expected >= 4 read-only bodies that create a reader, found %d" % n_paths)
    ctors = [bid for bid in P.bodies if re.search(r"::(new_from_parts|from_region)$", bid) and "sources::" in bid]
    if len(ctors) < 3:
        raise AnchorMissing("expected >= 3 reader constructors (new_from_parts/from_region), found %d" % len(ctors))
    for c in sorted(ctors):
        r = O.reach(c)
        chk.oblige("B09.4ii %s takes the length as a parameter (does not load it)" % c, GET not in r,
                   key="B09.4ii|%s" % c, msg="reader constructors must not load the shared length themselves")
    # B09.7 readers decode page bytes only while the page table is pinned (PAGES read lock): by a held guard, by a
    # `&Pages` parameter whose callers pass the deref of a held guard, or by a source struct that owns the guard
    ur = M(r"rawdb::reader::Reader::unchecked_read")
    n7 = 0
    for bid, body in sorted(P.bodies.items()):
        if body.krate != "vecdb" or bid == CMP_WRITE or "header" in bid:
            continue
        for b in O.sites(body, ur):
            sl = O.slice_back(body, body.blocks[b]["term"]["args"][1])
            if not ({"start", "bytes"} & sl["fields"]):
                continue
            n7 += 1
            held = O.held_classes(body, b)
            how = None
            if any(c == "PAGES" for c, m in held):
                how = "guard held in this function"
            pparams = [l for l in range(1, body.arg_count + 1) if body.locals[l]["ty"].endswith("::Pages")
                       and body.locals[l]["ty"].startswith("&")]
            if how is None and pparams:
                ok_callers = True
                ncall = 0
                for caller, blk in P.callers().get(bid, []):
                    CB = P.bodies[caller]
                    ncall += 1
                    a = CB.blocks[blk]["term"]["args"][pparams[0] - 1]
                    g = O.guard_local_of(CB, a)
                    hk = {l for c, m, l in L.held_items(CB, blk) if c == "PAGES"}
                    cparam = [l for l in range(1, CB.arg_count + 1) if "::Pages" in CB.locals[l]["ty"]]
                    if not ((g is not None and g in hk) or cparam):
                        ok_callers = False
                how = "`&Pages` parameter; all %d callers pass the deref of a held guard" % ncall if ok_callers and ncall else None
            if how is None and body.arg_count >= 1:
                st = re.sub(r"^&(mut )?", "", body.locals[1]["ty"]).split("<")[0]
                adt = P.adts.get(st)
                if adt and any(any(L.T.classify(p) == "PAGES" and not ref for m, p, ref in f["guards"])
                               for f in adt["variants"][0]["fields"]):
                    how = "self owns the PAGES guard"
            chk.oblige("B09.7 %s: page bytes are read while the page table is pinned (%s)" % (_short(bid), how or "NOT PINNED"),
                       how is not None, key="B09.7|%s|pages-not-pinned" % _short(bid),
                       msg="a reader decodes bytes located through a page entry after the pages lock was released: the "
                           "writer may have rewritten them")
    if n7 < 2:
        raise AnchorMissing("expected >= 2 page-located reads in vecdb read paths, found %d" % n7)
    # B09.8 "no read blocks forever": lock-order findings of engine A that are not already recorded under C11
    import json as _json
    import os as _os
    import locks as _locks
    from common import load_known
    ex = {k: v for k, v in _json.load(open(_os.path.join(_locks.RULES, "lock_exempt.json"))).items() if not k.startswith("_")}
    groups, _info = L.verdict(ex)
    known11 = load_known("C11")
    fresh = [g for g in groups if g["key"] not in known11]
    chk.oblige("B09.8 no lock-order cycle / recursive read beyond the constructs recorded under C11 [%d constructs, %d "
               "recorded]" % (len(groups), len(groups) - len(fresh)), not fresh,
               detail={"new_constructs": [{"key": g["key"], "pairs": g["pairs"]} for g in fresh]},
               key="B09.8|" + (fresh[0]["key"] if fresh else "-"),
               msg="a reader (or the writer it races with) can block forever: " + (
                   "%s while holding %s" % (fresh[0]["pairs"][0].split("->")[1], fresh[0]["pairs"][0].split("->")[0])
                   if fresh else ""))
    # B09.9 = E6: pointer reads of mapped bytes only while a Reader pins the mapping
    from props.c20 import live_reader_at_reads
    live_reader_at_reads(ctx, chk, "B09.9")
    # B09.6 relocation publishes the new placement only after the bytes are there (rawdb side of every append)
    from props.c10 import data_before_placement
    data_before_placement(ctx, chk, "B09.6")
    # B09.10 a CachedVec files its snapshot under the very length that bounded the collection (not a re-read one)
    mat = O.body("vecdb::variants::cached::CachedVec::<V>::materialize")

    def len_sites(op):
        sl = O.slice_back(mat, op)
        out = set()
        for l in sl["locals"]:
            for d in mat.defs().get(l, []):
                if d[0] == "call" and any(n.endswith("::len") for n in names(d[2])):
                    out.add(d[1])
        return out
    # the entry is a (len, version, data) tuple today; a private struct with the same content is the same thing: an
    # aggregate that holds a usize and the Arc<[T]> snapshot
    def _ty(o_):
        pl_ = op_place(o_)
        return mat.locals[pl_["l"]]["ty"] if pl_ is not None and not pl_["p"] else ""
    stores = [(b, st) for b in mat.reachable() for st in mat.blocks[b]["stmts"]
              if st[0] == "assign" and st[2]["k"] == "agg" and not st[2].get("closure") and len(st[2].get("ops", [])) >= 2
              and any(_ty(o_) == "usize" for o_ in st[2]["ops"])
              and any(_ty(o_).startswith("alloc::sync::Arc<[") for o_ in st[2]["ops"])]
    cols = O.sites(mat, M(r"vecdb::traits::readable::ReadableVec::collect_range(_dyn|_at)?"))
    if not stores or not cols:
        raise AnchorMissing("CachedVec::materialize: snapshot store / collect_range site not found")
    for b, st in stores:
        key_len = set()
        for o_ in st[2]["ops"]:
            if _ty(o_) == "usize":
                key_len |= len_sites(o_)
        bound = set()
        for cb in cols:
            bound |= len_sites(mat.blocks[cb]["term"]["args"][2])
        chk.oblige("B09.10 CachedVec::materialize: the cached (len, version, data) entry carries the length that bounded "
                   "the collection of `data`", bool(key_len & bound), key="B09.10|CachedVec::materialize|key-reread",
                   msg="a snapshot filed under a length read after the collection claims elements it does not hold: "
                       "readers of the cache see len() == L2 with L1 values until the length changes again")
    # B09.5 overwrite of published bytes only under PAGES:W
    for b in O.sites(cw, TW):
        t = cw.blocks[b]["term"]
        sl_ = O.slice_back(cw, t["args"][1])
        # (an offset computed by Page::end() is an append behind the published bytes, whatever else the slice touches)
        overwrites = "start" in sl_["fields"] and "vecdb::variants::compressed::inner::page::Page::end" not in sl_["calls"]
        if not overwrites:
            chk.oblige("B09.5 compressed write: region write at %s appends (offset from Page::end/next_start)"
                       % t.get("span"), True)
            continue
        held = O.held_classes(cw, b)
        chk.oblige("B09.5 held_at(compressed write: in-place overwrite from a published page's start, PAGES:W)",
                   ("PAGES", "W") in held, detail={"site": t.get("span"), "held": sorted(held),
                                                   "offset_sources": sorted(sl_["calls"])[:12]},
                   key="B09.5|held_at|overwrite-published-page|PAGES:W|data=%s" % (
                       cw.name_of.get((op_place(t["args"][2]) and O.root_local(cw, t["args"][2])) or -1, "?")),
                   msg="bytes described by a published page entry are overwritten while readers holding the pages "
                       "read lock may be decoding them")
    chk.sample({"rule": "B09.4i", "read_only_bodies_creating_readers": n_paths})
    chk.assumptions.append("only read-only clones / point readers race with the writer thread; the read-write type is "
                           "read by its &self owner only")
