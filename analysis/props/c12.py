"""C12 — compaction only discards bytes nobody can reach: structural clauses (DESIGN §4 C12)."""
from order import M, names
from common import AnchorMissing
from props.c05 import flush_before_punch, pending_holes_occupied, PUNCH, PUNCH_HOLES

EXPLANATION = (
    "Ordering / held-lock / who-may-call / constant-operand rules over the MIR of Database::compact, punch_holes and "
    "HolePunch::punch: flush precedes punching; punch ranges derive only from a region's metadata tail or promoted "
    "layout holes; the tail punch happens under that region's metadata write guard, with (start,len,reserved) read "
    "through that same guard; every punch happens with the layout read lock and the file read lock held; fallocate "
    "is called with FALLOC_FL_KEEP_SIZE; the data file's length is only ever changed by the two growth functions.")

import props.anchors as anchors


def punch_lock_rules(ctx, chk, rid):
    O, P, L = ctx.O, ctx.P, ctx.L
    ph = O.body(PUNCH_HOLES)
    tail_sites = O.need_sites(ph, PUNCH, 1)
    for b in tail_sites:
        held = O.held_classes(ph, b)
        for need in (("META", "W"), ("LAYOUT", "R"), ("FILE", "R")):
            chk.oblige("%s " % rid + "held_at(punch_holes: HolePunch::punch (region tail), %s:%s)" % need, need in held,
                       detail={"held": sorted(held), "site": ph.blocks[b]["term"].get("span")},
                       key="%s|held_at|tail-punch|%s:%s" % ((rid,) + need),
                       msg="a region's tail may only be punched while its metadata write lock, the layout read lock "
                           "and the file read lock are held")
    reads = M(r"rawdb::region_metadata::RegionMetadata::(start|len|reserved)")
    rs = O.need_sites(ph, reads, 1)
    guards = set()
    for b in rs:
        t = ph.blocks[b]["term"]
        g = O.guard_local_of(ph, t["args"][0])
        guards.add(g)
        held = O.held_classes(ph, b)
        chk.oblige("%s " % rid + "held_at(punch_holes: %s, META:W)" % names(t)[0].split("::")[-1], ("META", "W") in held,
                   key="%s|held_at|meta-read|%s" % (rid, names(t)[0].split("::")[-1]),
                   msg="the tail range must be computed from metadata read under the region's metadata write lock")
    ok = len(guards) == 1 and None not in guards and len(ph.defs().get(list(guards)[0], [])) == 1
    chk.oblige("%s " % rid + "same_guard(punch_holes: start, len, reserved read through one META guard)", ok,
               detail={"guard_locals": sorted(str(g) for g in guards)}, key="%s|same_guard|punch_holes" % rid,
               msg="(start,len,reserved) of a region must be one consistent snapshot")
    # parallel punch of layout holes: the closure runs inside a call made while LAYOUT:R and FILE:R are held
    # (closures of sequential std combinators are spliced into `ph` and were judged above as direct sites; what is left
    # are closures handed to the parallel iterator)
    spliced = set(O.inlined_into(PUNCH_HOLES))
    clos = [k for k in P.children.get(PUNCH_HOLES, []) if O.sites(P.bodies[k], PUNCH) and k not in spliced]
    inv = []
    for K in clos:
        found = False
        for b, t in ph.calls():
            for a in t["args"]:
                pl = a.get("m") or a.get("c")
                if pl and K in ph.locals[pl["l"]].get("closures", []) and P.resolve(t["callee"])[0] == "external":
                    inv.append(b)
                    found = True
        # the consuming call (sum/collect/for_each) is where the closure runs
        if not found:
            raise AnchorMissing("no call consuming the parallel punch closure %s found in punch_holes" % K)
    for b in sorted(set(inv)):
        held = O.held_classes(ph, b)
        t = ph.blocks[b]["term"]
        nm = names(t)[0]
        if not any(x in nm for x in ("sum", "collect", "for_each", "count", "reduce")):
            continue
        for need in (("LAYOUT", "R"), ("FILE", "R")):
            chk.oblige("%s " % rid + "held_at(punch_holes: parallel punch of layout holes via %s, %s:%s)" % (
                nm.split("::")[-1], need[0], need[1]), need in held, detail={"held": sorted(held)},
                key="%s|held_at|hole-punch|%s:%s" % ((rid,) + need),
                msg="free extents may only be punched while the layout read lock (no allocation can take the hole) "
                    "and the file read lock are held")


def run(ctx, chk):
    O, P, L = ctx.O, ctx.P, ctx.L
    anchors.check(ctx, chk, ['punch', 'promote_reads_pending'])
    flush_before_punch(ctx, chk, "B12.1")
    punch_lock_rules(ctx, chk, "B12.2")
    # B12.5 the writer side of the tail-punch exclusion: punch_holes takes a region's metadata *write* lock before it
    # inspects and punches the tail ceil(len)..reserved, which excludes a concurrent append into that tail only if the
    # appending thread holds the metadata lock while it copies the bytes (it publishes the new len afterwards)
    ww = O.body("rawdb::region::Region::write_with")
    dw = O.need_sites(ww, M(r"rawdb::Database::write"), 2)
    unlocked = [b for b in dw if not any(c == "META" for c, m in O.held_classes(ww, b))]
    chk.oblige("B12.5 held_at(write_with: Database::write into the region's reserve, META) [%d data-write sites]" % len(dw),
               not unlocked, detail={"unprotected_sites": [ww.blocks[b]["term"].get("span") for b in unlocked]},
               key="B12.5|write_with|data-write-without-meta-lock",
               msg="compaction can punch a region's reserve tail while a writer is copying an append into it: the writer "
                   "holds no metadata lock between reading (len, reserved) and publishing the new len")
    # B12.7 the hole map rebuilt at open: gaps are computed between neighbours in START order
    from order import iteration_order
    LF = O.body("<rawdb::layout::Layout as core::convert::From<&rawdb::regions::Regions>>::from")
    for b in O.need_sites(LF, M(r"rawdb::layout::Layout::insert_hole"), 1):
        t = LF.blocks[b]["term"]
        orders = sorted(set(iteration_order(O, LF, t["args"][1])) | set(iteration_order(O, LF, t["args"][2])))
        ok = bool(orders) and all((k == "btree" and ty == "usize") or k == "sorted-seq" for k, ty in orders)
        chk.oblige("B12.7 Layout::from: holes are the gaps between regions enumerated in start order %s" % (orders,), ok,
                   key="B12.7|Layout::from|gap-order",
                   msg="gaps computed between regions in slot (creation) order are wrong as soon as a region has moved: "
                       "space of a live region is recorded as a hole and later handed out or punched")
    # B12.6 = A10.2d: a relocation target is no longer listed as a hole while bytes are copied into it
    from props.c10 import hole_target_removed
    hole_target_removed(ctx, chk, "B12.6")
    # B12.8 = A10.13, B12.9 = B05.3d
    from props.c10 import hole_amount_conserved
    hole_amount_conserved(ctx, chk, "B12.8")
    from props.c05 import layout_map_writers
    layout_map_writers(ctx, chk, "B12.9")
    # B12.4 what becomes a punchable hole at compact's own flush was never grown into: pending holes are occupied space
    pending_holes_occupied(ctx, chk, "B12.4")
    # B12.10 = B05.10: the end-of-file placement looks at the last extent of every map
    from props.c05 import len_takes_greatest
    len_takes_greatest(ctx, chk, "B12.10")
    ph = O.body(PUNCH_HOLES)
    tail_sites = O.need_sites(ph, PUNCH, 1)
    # B12.3 KEEP_SIZE
    hp = O.body("rawdb::hole_punch::HolePunch::punch")
    fa = O.need_sites(hp, M(r"libc::.*::fallocate"), 1)
    for b in fa:
        t = hp.blocks[b]["term"]
        v = O.const_of(hp, t["args"][1])
        sl = O.slice_back(hp, t["args"][1])
        named = any(str(c).endswith("FALLOC_FL_KEEP_SIZE") for c in sl["consts"])
        ok = v is not None and int(v) & 1 == 1 and named
        chk.oblige("B12.3 const_operand(fallocate mode has FALLOC_FL_KEEP_SIZE) [mode=%s]" % v, ok,
                   key="B12.3|const|fallocate-mode", msg="hole punching must never change the file's logical length")
    set_len = M(r"std::fs::File::set_len")
    allowed = {"rawdb::Database::open_with_min_len", "rawdb::Database::set_min_len",
               "rawdb::regions::Regions::set_min_len"}
    for a in allowed:
        O.body(a)
    bad, n = O.only_callers(set_len, allowed)
    if n < 2:
        raise AnchorMissing("expected >= 2 File::set_len sites, found %d" % n)
    chk.oblige("B12.3 only_callers(File::set_len) = {open_with_min_len, set_min_len, Regions::set_min_len} [%d sites]"
               % n, not bad, detail={"offenders": bad}, key="B12.3|only_callers|File::set_len",
               msg="only the growth functions may change a file's length (compact must not)")
    r = O.reach("rawdb::Database::compact")
    chk.oblige("B12.3 compact does not reach File::set_len / set_min_len",
               not any(x in r for x in ("std::fs::File::set_len", "rawdb::Database::set_min_len")),
               key="B12.3|reach|compact-set_len", msg="compact must never change the file's logical length")
    chk.sample({"rule": "B12.2", "function": PUNCH_HOLES,
                "held_at_tail_punch": sorted(O.held_classes(ph, tail_sites[0]))})
    chk.assumptions.append("fallocate(PUNCH_HOLE|KEEP_SIZE) semantics are the kernel's; page rounding arithmetic of "
                           "the tail range is not decided")
