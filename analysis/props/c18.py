"""C18 — at most one open Database per directory: ordering clauses (DESIGN §4 C18)."""
import re

from order import M, names
from common import AnchorMissing

EXPLANATION = (
    "Ordering and who-may-call rules over the MIR of Database::open_with_min_len and Regions::open: the advisory "
    "lock (File::try_lock) is taken on every path before the file is resized, synced, mapped or its metadata loaded; "
    "files are opened with truncate(false); the locked File values flow into the long-lived Database / Regions "
    "structs (they are not dropped by the constructors on the success path); nobody else opens the files for "
    "writing and nobody calls File::unlock. OS semantics of advisory locks are trusted.")

OPEN = "rawdb::Database::open_with_min_len"
ROPEN = "rawdb::regions::Regions::open"
TRY_LOCK = M(r"std::fs::File::try_lock", reach="must")
OO_OPEN = M(r"std::fs::OpenOptions::open")

import props.anchors as anchors


def run(ctx, chk):
    O, P = ctx.O, ctx.P
    ob = O.body(OPEN)
    anchors.check(ctx, chk, ['try_lock_regions', 'sync_bg_joins'])
    rb = O.body(ROPEN)
    O.need_sites(ob, TRY_LOCK, 1)
    O.need_sites(rb, TRY_LOCK, 1)
    for fn, body, later in (
        (OPEN, ob, [M(r"std::fs::File::set_len"), M(r"std::fs::File::sync_all"), M(r"rawdb::regions::Regions::open"),
                    M(r"rawdb::mmap::create_mmap"), M(r"rawdb::regions::Regions::fill")]),
        (ROPEN, rb, [M(r"rawdb::mmap::create_mmap")]),
    ):
        for m in later:
            O.need_sites(body, m, 1)
            bad = O.precedes(body, TRY_LOCK, m)
            chk.oblige("B18.1 precedes(%s: File::try_lock before %s)" % (fn, m.label), not bad,
                       detail={"sites": [body.blocks[b]["term"].get("span") for b in bad]},
                       key="B18.1|%s|%s" % (fn, m.label),
                       msg="the advisory lock must be held before the file is resized, synced, mapped or read")
        # the lock is taken on the freshly opened file: try_lock's receiver derives from OpenOptions::open
        for b in O.sites(body, M(r"std::fs::File::try_lock")):
            sl = O.slice_back(body, body.blocks[b]["term"]["args"][0])
            chk.oblige("B18.1 flows_to(%s: OpenOptions::open -> File::try_lock receiver)" % fn,
                       "std::fs::OpenOptions::open" in sl["calls"], key="B18.1|flows|%s|try_lock" % fn,
                       msg="the lock must be taken on the file this constructor opened")
        # truncate(false)
        ts = O.need_sites(body, M(r"std::fs::OpenOptions::truncate"), 1)
        for b in ts:
            v = O.const_of(body, body.blocks[b]["term"]["args"][1])
            chk.oblige("B18.1 const_operand(%s: OpenOptions::truncate(false)) [got %s]" % (fn, v), v == "0",
                       key="B18.1|const|%s|truncate" % fn, msg="opening must never truncate an existing file")
        # no mutation of the file before the lock
        for m in (M(r"std::fs::File::set_len"), M(r"std::fs::File::sync_all"), M(r"std::fs::File::sync_data"),
                  M(r".*::write_all"), M(r"rawdb::mmap::write_to_mmap")):
            pre = [b for b in O.sites(body, m) if b in O.precedes(body, TRY_LOCK, m)]
            chk.oblige("B18.1 %s: no %s before try_lock" % (fn, m.label), not pre, key="B18.1|pre|%s|%s" % (fn, m.label),
                       msg="a second opener must fail before modifying anything")
    # B18.2 who may call Regions::open
    bad, n = O.only_callers(M(r"rawdb::regions::Regions::open"), {OPEN})
    chk.oblige("B18.2 only_callers(Regions::open) = {open_with_min_len} [%d sites]" % n, not bad and n >= 1,
               detail={"offenders": bad}, key="B18.2|only_callers|Regions::open",
               msg="the metadata file is opened (and locked) only as part of Database::open")
    # B18.3 the locked files flow into the long-lived structs
    found = False
    for b, t in ob.calls():
        if any(n.startswith("lock_api::rwlock::RwLock::<R, T>::new") for n in names(t)) and \
                t["callee"].get("targs", [""])[-1] == "std::fs::File":
            sl = O.slice_back(ob, t["args"][0])
            found = "std::fs::OpenOptions::open" in sl["calls"]
    chk.oblige("B18.3 flows_to(open_with_min_len: locked data File -> RwLock::new(file) in DatabaseInner)", found,
               key="B18.3|flows|data-file", msg="the locked data file must live as long as the Database")
    found = False
    for b in rb.reachable():
        for st in rb.blocks[b]["stmts"]:
            if st[0] == "assign" and st[2]["k"] == "agg" and st[2].get("adt") == "rawdb::regions::Regions":
                for o in st[2]["ops"]:
                    if "m" in o or "c" in o:
                        sl = O.slice_back(rb, o)
                        if "std::fs::OpenOptions::open" in sl["calls"] and "rawdb::mmap::create_mmap" not in sl["calls"]:
                            found = True
    chk.oblige("B18.3 flows_to(Regions::open: locked metadata File -> Regions.file)", found,
               key="B18.3|flows|regions-file", msg="the locked metadata file must live as long as the Database")
    # success paths of the constructors do not drop the File
    for fn, body in ((OPEN, ob), (ROPEN, rb)):
        ek = O.exit_kinds(body)
        okb = [b for b, k in ek.items() if k == "ok"]
        drops = []
        for b in body.reachable():
            t = body.blocks[b]["term"]
            if t["k"] == "drop" and t["ty"] == "std::fs::File" and any(O.can_reach(body, b, [o]) or b == o for o in okb):
                # a drop that lies on a path to the Ok return *after* _0 was assigned is the moved-out flag path;
                # drop elaboration removes drops of moved values, so any remaining one is a real drop
                if any(O.can_reach(body, o, [b]) for o in okb):
                    drops.append(t.get("span"))
        chk.oblige("B18.3 %s: the opened File is not dropped on the success path" % fn, not drops,
                   detail={"drops": drops}, key="B18.3|drop|%s" % fn,
                   msg="dropping the File would release the advisory lock while the Database is alive")
    openers = M(r"std::fs::OpenOptions::(write|append|create|create_new)|std::fs::File::(create|create_new|options)")
    sites = [(bid, root, b) for bid, root, b in O.callers_of(openers) if P.bodies[bid].krate == "rawdb"]
    bad = [(bid, b) for bid, root, b in sites if root not in (OPEN, ROPEN) and not O.private_part_of(root, {OPEN, ROPEN})]
    if len(sites) < 2:
        raise AnchorMissing("expected >= 2 write-open option calls in rawdb, found %d" % len(sites))
    chk.oblige("B18.3 only_callers(rawdb: open-for-writing) = {open_with_min_len, Regions::open} [%d sites]" % len(sites),
               not bad, detail={"offenders": bad}, key="B18.3|only_callers|open-for-writing",
               msg="no other rawdb code may open the database files for writing (it would bypass the lock)")
    bad, n = O.only_callers(M(r"std::fs::File::unlock"), set())
    chk.oblige("B18.3 only_callers(File::unlock) = {} [%d sites]" % n, not bad, detail={"offenders": bad},
               key="B18.3|only_callers|File::unlock", msg="nobody releases the advisory lock early")
    # B18.5 the locked descriptors are never duplicated (a dup shares the lock and outlives the Database)
    dups = [(bid, b) for bid, root, b in O.callers_of(M(r"std::fs::File::try_clone|.*::dup\w*|.*BorrowedFd.*::try_clone_to_owned"))
            if P.bodies[bid].krate == "rawdb"]
    chk.oblige("B18.5 rawdb never duplicates a file descriptor (File::try_clone / dup)", not dups,
               detail={"sites": dups}, key="B18.5|only_callers|File::try_clone",
               msg="a duplicate of the locked data/regions descriptor keeps the advisory lock alive after every handle of "
                   "the Database is gone")
    # B18.6 a refused open leaves the files alone: on the failure edge of try_lock nothing (including drop glue of
    # scope guards) reaches a file-system mutation
    fsmut = re.compile(r"std::fs::(remove_file|remove_dir|remove_dir_all|write|rename)|std::fs::File::(set_len|sync_all|sync_data)")
    for fn, body in ((OPEN, O.body(OPEN)), (ROPEN, O.body(ROPEN))):
        TL = M(r"std::fs::File::try_lock")
        tl = O.sites(body, TL)
        bad = []
        if True:
            fail_region = O.failure_region(body, TL)
            for x in fail_region:
                t = body.blocks[x]["term"]
                if t["k"] == "call":
                    nm = names(t)
                    kind, tg = P.resolve(t["callee"])
                    hit = any(fsmut.fullmatch(n) for n in nm) or (kind == "ws" and any(
                        any(fsmut.fullmatch(r) for r in O.reach(g)) for g in tg))
                    if hit:
                        bad.append(t.get("span"))
                elif t["k"] == "drop":
                    for adt in t.get("owners", []):
                        for d in P.drop_bodies(adt):
                            if any(fsmut.fullmatch(r) for r in O.reach(d)):
                                bad.append("drop of %s at %s" % (adt, t.get("span")))
        chk.oblige("B18.6 %s: nothing on the refusal path (incl. drop glue) touches the file system [%d blocks on the "
                   "failure edge of try_lock]" % (fn, len(fail_region)), bool(tl) and bool(fail_region) and not bad,
                   detail={"sites": bad}, key="B18.6|%s|refusal-path-mutates" % fn,
                   msg="a refused open must neither modify nor remove the holder's files")
    # B18.7 teardown releases the locks in the reverse order of open(): `open` locks the data file first and the
    # regions file second, and a racing open that wins the data lock already resizes the file before it is refused at
    # the regions lock - so the data file must be the LAST of the two to be closed (fields drop in declaration order)
    adt = P.adts.get("rawdb::DatabaseInner")
    if adt is None:
        raise AnchorMissing("ADT rawdb::DatabaseInner not found")
    fn_ = [f["name"] for f in adt["variants"][0]["fields"]]
    f_file, f_regions = anchors.db_lock_fields(P)      # found by type, whatever they are called
    chk.oblige("B18.7 DatabaseInner drops `%s` (Regions, with its locked file) before `%s` (the locked data file): field "
               "order %s" % (f_regions, f_file, fn_), fn_.index(f_regions) < fn_.index(f_file),
               key="B18.7|DatabaseInner|drop-order",
               msg="if the data file is unlocked first, an open() racing with the last drop takes the data lock, grows "
                   "and syncs the file, and only then is refused at the regions lock: a refused open modified the files")
    # B18.4b the condition under which the last drop joins the background tasks counts STRONG handles only (every
    # Region holds a Weak<DatabaseInner>; weak-sensitive tests are false for any database that has a region)
    dropb = O.body("<rawdb::Database as core::ops::drop::Drop>::drop")
    import props.c17 as c17
    weak_sensitive = re.compile(r"alloc::sync::Arc::<T(, A)?>::(get_mut|try_unwrap|into_inner|weak_count|is_unique)")
    badg = []
    for sb in O.sites(dropb, M(r"rawdb::Database::sync_bg_tasks")):
        for g in c17.guards_of(ctx, dropb, sb):
            badg += [c for c in g["calls"] if weak_sensitive.fullmatch(c)]
    chk.oblige("B18.4b <Database as Drop>::drop decides 'last handle' without weak-reference-sensitive Arc tests",
               not badg, detail={"calls": sorted(set(badg))}, key="B18.4b|drop|weak-sensitive-last-handle-test",
               msg="Arc::get_mut / try_unwrap fail while any Region (which holds a Weak) exists: the last drop would not "
                   "join the background tasks and the locks would be released under a running task")
    # B18.4 the last handle's drop waits for background work, and background work does not keep the instance alive
    drop = O.body("<rawdb::Database as core::ops::drop::Drop>::drop")
    r = O.reach(drop.id)
    chk.oblige("B18.4 <Database as Drop>::drop reaches sync_bg_tasks -> JoinHandle::join",
               "rawdb::Database::sync_bg_tasks" in r and any("JoinHandle" in x and x.endswith("::join") for x in r),
               key="B18.4|drop-joins", msg="dropping the last handle must join background tasks so the file locks are "
                                           "released when the caller believes the database closed")
    rb_ = O.body("rawdb::Database::run_bg")
    clones = []
    for bb in [rb_] + [P.bodies[k] for k in P.children.get(rb_.id, [])]:
        for b, t in bb.calls():
            nm = names(t)
            if any(n.endswith("Clone>::clone") or n.endswith("Clone::clone") for n in nm):
                st = t["callee"].get("self_ty", "") + " ".join(t["callee"].get("targs", []))
                if "Database" in st or "DatabaseInner" in st:
                    clones.append(t.get("span"))
    chk.oblige("B18.4 run_bg does not hand the background thread a counted Database clone", not clones,
               detail={"clones": clones}, key="B18.4|run_bg-uncounted",
               msg="a counted clone held by the background task makes strong_count != 1 at the last user drop: the drop "
                   "neither cancels nor joins the task and the directory stays locked")
    sb = O.body("rawdb::Database::sync_bg_tasks")
    drain = [b for b, t in sb.calls() if ctx.L.prim(t["callee"]) and ctx.L.prim(t["callee"])[0] == "BG_TASKS"]
    inn = O.seen_before(sb, drain)
    ek = O.exit_kinds(sb)
    early = [b for b, k in ek.items() if k == "ok" and not inn[b]]
    chk.oblige("B18.4 sync_bg_tasks: no Ok return before the pending task handles were taken (bg_tasks lock) [%d ok exits]"
               % sum(1 for k in ek.values() if k == "ok"), bool(drain) and not early,
               key="B18.4|sync_bg_tasks-early-return",
               msg="sync_bg_tasks (also run by the last handle's Drop) must not return without joining pending tasks, or "
                   "the directory is re-openable while a task of the old instance still runs")
    spawn = O.sites(rb_, M(r"std::thread::(functions::)?spawn"))
    pushes = O.sites(rb_, M(r"alloc::vec::Vec::<T, A>::push"))
    chk.oblige("B18.4 run_bg records the JoinHandle of the spawned task (spawn then push into bg_tasks)",
               bool(spawn) and bool(pushes), key="B18.4|run_bg-records-handle",
               msg="every background task must be joinable by sync_bg_tasks")
    chk.sample({"rule": "B18.1", "function": OPEN,
                "try_lock_site": [ob.blocks[b]["term"].get("span") for b in O.sites(ob, TRY_LOCK)]})
    chk.assumptions.append("flock-style advisory lock semantics across processes are the operating system's")
