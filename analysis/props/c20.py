"""C20 — reads on behalf of a vector never touch bytes outside its region's valid data (engine E)."""
import re

from order import M, names
from program import op_place, op_local
from common import AnchorMissing

EXPLANATION = (
    "Inventory of every place where bytes are fetched without a region-relative check (Reader::unchecked_read, "
    "pointer reads through Reader::prefixed, bulk from_raw_parts, file-IO refills) with the *class of the bound* "
    "that guards it, found from the dominating branch conditions and the backward slice of the offset operands: "
    "PHYS (region / reader / page-table lengths), LOGICAL (the shared stored length), PAGE (a published page entry), "
    "PARAM (a length handed in by a constructor whose callers are classified in turn), TOTAL (stored + pushed) or "
    "NONE. No site may be TOTAL or NONE (E1). Every publication of the shared length must be of a class that keeps "
    "LOGICAL <= PHYS (E2). Sources that cache absolute offsets pin the placement they were computed from (E3), and "
    "a page entry is published only after the region covers it (E4). Arithmetic exactness of each offset is not decided.")

LOGICAL = re.compile(r"(^|::)stored_len$|SharedLen::get$|ReadOnlyBaseVec::<I, T>::len$")
PHYS = re.compile(r"::real_stored_len$|rawdb::reader::Reader::(len|is_empty)$|RegionMetadata::len$|Pages::stored_len$")
PAGEC = re.compile(r"Pages::(get|last|len|next_start)$|Page::(end|is_raw|values_count)$|index_to_page_index$|page_index_to_index$")
BY_CONTRACT = re.compile(
    r"ReadWriteRawVec::<I, T, S>::unchecked_read_at$|ZeroCopyVec::<I, T>::unchecked_read_ref_at$|"
    r"RawStrategy<T>.*::read_from_ptr$|::read_from_ptr$|rawdb::reader::Reader::unchecked_read$")
READ_SITE = re.compile(
    r"rawdb::reader::Reader::unchecked_read$|::read_from_ptr$|core::slice::raw::from_raw_parts$|"
    r"ReadWriteRawVec::<I, T, S>::unchecked_read_at$|ZeroCopyVec::<I, T>::unchecked_read_ref_at$|"
    r"std::io::Read::read_exact$|<std::fs::File as std::io::Read>::read_exact$")
# functions whose from_raw_parts reinterprets an in-memory buffer, not mapped file bytes
NOT_FILE_BYTES = re.compile(r"::pco::|any_stored_vec::.*::write$|version::try_from_path|BytesStrategy<T>>::read_from_ptr$|"
                            r"strategy::raw::<impl")
ACCEPTED = {
    # (site function, kind) -> reason a NONE classification is acceptable (reviewed by reading; value-level)
    ("rollback>::serialize_raw_changes", "unchecked_read_at"):
        "indices are keys of the `updated` overlay: update_at only inserts indices < stored_len, and every key at or "
        "beyond the on-disk length stems from a rollback overlay, which is saved into prev_updated (the branch taken "
        "instead of the read)",
}


def classes_of_slice(ctx, body, sl, _depth=0):
    O = ctx.O
    cl = set()
    for c in sl["calls"]:
        if PHYS.search(c):
            cl.add("PHYS")
        elif LOGICAL.search(c):
            cl.add("LOGICAL")
        elif PAGEC.search(c):
            cl.add("PAGE")
        elif c.endswith("::len") and (c.startswith("vecdb::") or c.startswith("<vecdb")):
            r = O.reach(c) if c in ctx.P.bodies else set()
            gets = "vecdb::base::shared_len::SharedLen::get" in r
            pushed = any(x.endswith("::pushed") or x.endswith("::pushed_len") for x in r)
            if gets and pushed:
                cl.add("TOTAL")
            elif gets:
                cl.add("LOGICAL")
            else:
                tg = ctx.P.cha(c)
                for g in tg:
                    rr = O.reach(g)
                    if "vecdb::base::shared_len::SharedLen::get" in rr and any(x.endswith("::pushed") for x in rr):
                        cl.add("TOTAL")
                    elif "vecdb::base::shared_len::SharedLen::get" in rr:
                        cl.add("LOGICAL")
        elif _depth < 2 and (c.startswith("vecdb::") or c.startswith("<vecdb")) and not c.endswith("::len"):
            # a workspace accessor that is not in the tables (a private trait method wrapping stored_len(), ...): the
            # class of what it returns
            P = ctx.P
            tgs = [c] if c in P.bodies else list(P.cha(c))
            for g in tgs[:6]:
                G = P.bodies.get(g)
                if G is None or len(G.blocks) > 60 or not re.fullmatch(r"u(size|64|32)", G.locals[0]["ty"]):
                    continue
                for b_ in G.reachable():
                    for st_ in G.blocks[b_]["stmts"]:
                        if st_[0] == "assign" and st_[1]["l"] == 0 and not st_[1]["p"]:
                            for o_ in st_[2].get("ops", []):
                                if op_place(o_) is not None:
                                    cl |= classes_of_slice(ctx, G, O.slice_back(G, o_), _depth + 1) - {"PARAM"}
                    t_ = G.blocks[b_]["term"]
                    if t_["k"] == "call" and not t_["dest"]["p"] and t_["dest"]["l"] == 0:
                        cl |= classes_of_slice(ctx, G, {"calls": set(names(t_)), "fields": set(), "params": set()},
                                               _depth + 1)
    for f in sl["fields"]:
        if f in ("stored_len",):
            cl.add("LOGICAL")
        if f in ("start", "bytes", "values"):
            cl.add("PAGE")
        if f in ("end", "pos", "end_offset", "file_offset", "buffer_len", "buffer_pos", "len"):
            cl.add("PARAM")
    if any(p >= 2 for p in sl["params"]):
        cl.add("PARAM")
    return cl


def site_classes(ctx, body, b, operands):
    """classes of the bounds guarding the site at block b."""
    O = ctx.O
    dom = body.dominators()
    cl = set()
    for o in operands:
        if op_place(o) is not None:
            cl |= classes_of_slice(ctx, body, O.slice_back(body, o))
    for g in body.reachable():
        t = body.blocks[g]["term"]
        if t["k"] != "switch" or g == b or g not in dom[b]:
            continue
        if all(s == b or O.can_reach(body, s, [b]) for s in body.succ(g)):
            # both edges reach the site: only a guard if the site is inside a loop controlled by g; keep it
            pass
        cl |= classes_of_slice(ctx, body, O.slice_back(body, t["op"]))
    return cl

import props.anchors as anchors


def pins(ctx, chk, rid):
    """shared by C20 (E3) and C10 (A10.10)"""
    O, P, L = ctx.O, ctx.P, ctx.L
    # ---------------- E3 pins
    table = {
        "rawdb::reader::Reader": ("MMAP", "a Reader's offsets are valid only while the mapping cannot be replaced"),
        "vecdb::variants::raw::sources::io::RawIoSource": ("META", "absolute file offsets are valid only while the region cannot be relocated"),
        "vecdb::variants::compressed::sources::io::CompressedIoSource": ("META", "absolute file offsets are valid only while the region cannot be relocated"),
    }
    for adt, (cls, why) in table.items():
        a = P.adts.get(adt)
        if a is None:
            raise AnchorMissing("%s not found" % adt)
        held = set()
        for f in a["variants"][0]["fields"]:
            for m, payload, ref in f["guards"]:
                if not ref:
                    held.add(L.T.classify(payload))
        chk.oblige(rid + " %s pins %s for its lifetime (owns a %s read guard)" % (adt.split("::")[-1], cls, cls), cls in held,
                   detail={"guard_classes": sorted(held)}, key=rid + "|pin|%s|%s" % (adt.split("::")[-1], cls), msg=why)
    for adt in ("vecdb::variants::raw::sources::reader::VecReader", "vecdb::variants::raw::sources::mmap::RawMmapSource",
                "vecdb::variants::compressed::sources::mmap::CompressedMmapSource"):
        a = P.adts.get(adt)
        if a is None:
            raise AnchorMissing("%s not found" % adt)
        owns = any("rawdb::reader::Reader" in f["ty"] and not f["ty"].startswith("&") for f in a["variants"][0]["fields"])
        chk.oblige(rid + " %s owns the Reader its cached pointer comes from" % adt.split("::")[-1], owns,
                   key=rid + "|owns-reader|%s" % adt.split("::")[-1],
                   msg="a cached pointer into the mapping must not outlive the Reader that keeps the mapping in place")


def live_reader_at_reads(ctx, chk, rid):
    """every pointer read of mapped bytes happens while the mapping is pinned: a Reader (MMAP read guard) is live in
    the function, or `self` owns one, or a `&Reader` parameter is in scope (shared by C20, C09, C10)."""
    O, P, L = ctx.O, ctx.P, ctx.L
    mapped = re.compile(r"rawdb::reader::Reader::(prefixed|unchecked_read|read|read_all)$|rawdb::region::Region::create_reader$")
    n = 0
    for bid, body in sorted(P.bodies.items()):
        if body.krate != "vecdb" or NOT_FILE_BYTES.search(bid) and "read_from_ptr" not in bid:
            continue
        if re.search(r"::read_from_ptr$", bid):
            continue
        for b, t in body.calls():
            nm = names(t)
            if not any(x.endswith("::read_from_ptr") or x == "core::slice::raw::from_raw_parts" for x in nm):
                continue
            sl = O.slice_back(body, t["args"][0])
            from_map = any(mapped.search(c) for c in sl["calls"])
            if not from_map:
                for c in sl["calls"]:
                    if c in P.bodies and any(mapped.search(x) for x in O.reach(c)):
                        from_map = True
            self_owned = False
            if body.arg_count >= 1:
                st = re.sub(r"^&(mut )?", "", body.locals[1]["ty"]).split("<")[0]
                adt = P.adts.get(st)
                if adt and any("rawdb::reader::Reader" in f["ty"] and not f["ty"].startswith("&")
                               for f in adt["variants"][0]["fields"]):
                    self_owned = "data" in sl["fields"] or 1 in sl["params"]
            if not from_map and not self_owned:
                continue
            n += 1
            held = any(c == "MMAP" for c, m in O.held_classes(body, b))
            rparam = any("rawdb::reader::Reader" in body.locals[l]["ty"] and body.locals[l]["ty"].startswith("&")
                         for l in range(1, body.arg_count + 1))
            how = "Reader live in the function" if held else ("self owns the Reader" if self_owned else (
                "&Reader parameter" if rparam else None))
            chk.oblige("%s %s: pointer read of mapped bytes at %s while the mapping is pinned (%s)" % (
                rid, _fn(bid), t.get("span"), how or "NO READER ALIVE"), how is not None,
                key="%s|%s|read-without-live-reader" % (rid, _fn(bid)),
                msg="bytes are fetched through a pointer into the mapping after the Reader that pinned it was dropped "
                    "(file growth can replace and unmap the mapping; relocation can move the region)")
    if n < 4:
        raise AnchorMissing("expected >= 4 pointer reads of mapped bytes in vecdb, found %d" % n)


def entry_bytes_recomputed(ctx, chk, rid):
    """compressed write(): a region write that starts at a published page's `start` rewrites that page, so the entries
    pushed afterwards must not reuse the old entry's byte count; only an append at Page::end() may extend it."""
    O, P = ctx.O, ctx.P
    from props.c09 import CMP_WRITE
    cw = O.body(CMP_WRITE)
    tws = O.sites(cw, M(r"rawdb::region::Region::truncate_write"))
    mk = M(r"vecdb::variants::compressed::inner::page::Page::(raw|compressed)")
    for b in tws:
        t = cw.blocks[b]["term"]
        sl = O.slice_back(cw, t["args"][1])
        from_start = "start" in sl["fields"] and "vecdb::variants::compressed::inner::page::Page::end" not in sl["calls"]
        if not from_start:
            continue
        reused = []
        for p in O.sites(cw, mk):
            if not O.can_reach(cw, b, [p]):
                continue
            pt = cw.blocks[p]["term"]
            if len(pt["args"]) > 1 and op_place(pt["args"][1]) is not None:
                # direct arithmetic dependence (through casts / sums only, not through decoding the old page)
                import decode
                D = getattr(ctx, "_decode", None) or decode.Decode(P)
                ctx._decode = D
                if _mentions_field(_arith_leaves(cw, D, pt["args"][1]), "bytes"):
                    reused.append(pt.get("span"))
        chk.oblige("%s compressed write: the rewrite starting at a page's `start` (%s) recomputes the byte count of the "
                   "entries it pushes" % (rid, t.get("span")), not reused, detail={"entries_reusing_old_bytes": reused},
                   key="%s|compressed-write|stale-byte-count" % rid,
                   msg="a page entry built from the old entry's byte count after the page was rewritten from its start "
                       "describes bytes beyond what was written (readers slice past the region's valid data)")


def run(ctx, chk):
    O, P, L = ctx.O, ctx.P, ctx.L
    # ---------------- E1
    anchors.check(ctx, chk, ['update_stored_len', 'stored_len', 'create_reader', 'reader_new_mmap', 'truncate_write', 'pages_push'])
    n_sites = 0
    by_kind = {}
    param_ctor = set()
    for bid, body0 in sorted(P.bodies.items()):
        if body0.krate != "vecdb" or NOT_FILE_BYTES.search(bid):
            continue
        if BY_CONTRACT.search(bid):
            continue   # unchecked by contract: their call sites are the sites
        has_site = any(any(READ_SITE.search(n) for n in names(t)) for _, t in body0.calls())
        if not has_site and not O.inlined_into(bid):
            continue
        if O.covered_by_callers(bid):
            continue   # a private helper / closure of a std combinator: judged inside the functions that use it
        body = O.body(bid)
        for b, t in body.calls():
            nm = names(t)
            hit = [n for n in nm if READ_SITE.search(n)] if not t.get("inlined") else []
            if not hit:
                continue
            kind = hit[0].split("::")[-1]
            if kind == "from_raw_parts":
                # only pointer reads derived from a Reader (mapped file bytes)
                sl = O.slice_back(body, t["args"][0])
                if not any(c.endswith("Reader::prefixed") or c.endswith("Reader::unchecked_read") for c in sl["calls"]):
                    continue
            n_sites += 1
            by_kind[kind] = by_kind.get(kind, 0) + 1
            ops = t["args"][1:] if kind not in ("read_exact",) else t["args"][1:]
            if kind in ("read_from_ptr", "from_raw_parts"):
                ops = t["args"]
            cl = site_classes(ctx, body, b, ops)
            good = cl & {"PHYS", "LOGICAL", "PAGE"}
            fn = _fn(bid)
            if good:
                ok, why = True, "bounded by " + "/".join(sorted(good))
            elif "TOTAL" in cl:
                ok, why = False, "bounded only by the total length (stored + pushed)"
            elif "PARAM" in cl:
                ok, why = True, "bounded by constructor-established fields / parameters (callers classified below)"
                param_ctor.add(bid)
            elif (fn, kind) in ACCEPTED:
                ok, why = True, "accepted (table): " + ACCEPTED[(fn, kind)]
            else:
                ok, why = False, "no dominating bound found"
            chk.oblige("E1 %s: %s at %s — %s" % (fn, kind, t.get("span"), why), ok,
                       detail={"function": bid, "classes": sorted(cl), "site": t.get("span")},
                       key="E1|%s|%s|%s" % (fn, kind, "TOTAL" if "TOTAL" in cl else "NONE"),
                       msg="a read of mapped/file bytes is %s" % why)
    if n_sites < 10:
        raise AnchorMissing("expected >= 10 unchecked read sites in vecdb, found %d" % n_sites)
    # constructors of PARAM-bounded sources: every caller passes a LOGICAL/PHYS length
    ctors = sorted(bid for bid in P.bodies if re.search(r"sources::.*::(new_from_parts|from_region)$", bid))
    if len(ctors) < 3:
        raise AnchorMissing("expected >= 3 source constructors, found %d" % len(ctors))
    for cid in ctors:
        cb = P.bodies[cid]
        lenp = [l for l in range(1, cb.arg_count + 1) if cb.name_of.get(l) in ("stored_len", "len")]
        if not lenp:
            raise AnchorMissing("%s: length parameter not found" % cid)
        for caller, blk in P.callers().get(cid, []):
            B = P.bodies[caller]
            t = B.blocks[blk]["term"]
            a = t["args"][lenp[0] - 1]
            sl = O.slice_back(B, a)
            cl = classes_of_slice(ctx, B, sl)
            ok = bool(cl & {"LOGICAL", "PHYS"}) and "TOTAL" not in cl or (cl == {"PARAM"})
            chk.oblige("E1c %s passes a %s length to %s" % (_fn(caller), "/".join(sorted(cl)) or "?", _fn(cid)), ok,
                       detail={"caller": caller, "classes": sorted(cl)}, key="E1c|%s|%s" % (_fn(caller), _fn(cid)),
                       msg="a reader source must be constructed with the stored (logical) or physical length, never "
                           "with stored + pushed")
    # E1d the constructors clamp: every range field of the source they build depends on the length parameter
    for cid in ctors:
        cb = P.bodies[cid]
        lenp = [l for l in range(1, cb.arg_count + 1) if cb.name_of.get(l) in ("stored_len", "len")]
        agg = None
        for b in cb.reachable():
            for st in cb.blocks[b]["stmts"]:
                if st[0] == "assign" and st[2]["k"] == "agg" and st[2].get("adt") and cid.startswith(
                        st[2]["adt"].split("<")[0]) and "sources::" in st[2]["adt"]:
                    agg = st[2]
        if agg is None:
            raise AnchorMissing("%s: construction of the source struct not found" % cid)
        adt = P.adts[agg["adt"]]
        fields = [f["name"] for f in adt["variants"][0]["fields"]]
        for fname in ("end", "pos", "end_offset", "file_offset", "stored_len", "end_page", "to"):
            if fname not in fields:
                continue
            o = agg["ops"][fields.index(fname)]
            dep = op_place(o) is not None and lenp[0] in O.slice_back(cb, o)["params"]
            chk.oblige("E1d %s: field `%s` is clamped by the length parameter" % (_fn(cid), fname), dep,
                       key="E1d|%s|%s" % (_fn(cid), fname),
                       msg="a source's range must be clamped to the stored length it was given, or its loops read past "
                           "the valid data")
    # ---------------- E2 publications
    pubs = 0
    for bid, body0 in sorted(P.bodies.items()):
        if body0.krate != "vecdb":
            continue
        if not any(any(n.endswith("ReadWriteBaseVec::<I, T>::update_stored_len") or n.endswith("SharedLen::set")
                       for n in names(t)) for _, t in body0.calls()) and not O.inlined_into(bid):
            continue
        if O.covered_by_callers(bid):
            continue        # a private helper / closure: judged inside the functions that use it
        body = O.body(bid)
        for b, t in body.calls():
            nm = names(t)
            if t.get("inlined") or not any(n.endswith("ReadWriteBaseVec::<I, T>::update_stored_len") or n.endswith("SharedLen::set")
                                           for n in nm):
                continue
            if bid.endswith("::update_stored_len") or bid.endswith("SharedLen::set"):
                if bid.endswith("::update_stored_len"):
                    continue
            pubs += 1
            val = t["args"][1]
            fn = _fn(bid)
            v = O.const_of(body, val)
            sl = O.slice_back(body, val) if op_place(val) is not None else {"calls": set(), "params": set(), "fields": set()}
            cl = classes_of_slice(ctx, body, sl) if op_place(val) is not None else set()
            tw = M(r"rawdb::region::Region::truncate_write")
            if v == "0":
                ok, why = True, "constant 0 (reset)"
            elif "PHYS" in cl:
                ok, why = True, "derived from the physical length (real_stored_len)"
            elif bid.endswith("::write") and not O.precedes(body, tw, M(r".*", where=lambda bd, bb, tt: bb == b)):
                ok, why = True, "stored + pushed published after Region::truncate_write of the pushed data"
            elif bid.endswith("truncate_if_needed_at"):
                # shrinking: guarded by truncate_pushed(index) (true only when index < stored_len)
                guard = any("truncate_pushed" in c for c in O.slice_back(body, _dom_switch(body, b)["op"])["calls"]) \
                    if _dom_switch(body, b) else False
                ok, why = guard, "truncation below the stored length (guarded by truncate_pushed)"
            elif bid.endswith("apply_rollback"):
                # parameter: callers must clamp by the physical length where disk no longer holds the values
                ok, why = True, "parameter (callers checked by E2r)"
            else:
                ok, why = False, "published length of unknown class %s" % sorted(cl)
            chk.oblige("E2 %s publishes the shared length: %s" % (fn, why), ok, detail={"function": bid, "classes": sorted(cl)},
                       key="E2|%s" % fn, msg="the shared length may only be published for data that is on disk: %s" % why)
    if pubs < 4:
        raise AnchorMissing("expected >= 4 publications of the shared length, found %d" % pubs)
    ar = M(r"vecdb::base::rollback::<impl vecdb::base::read_write::ReadWriteBaseVec<I, T>>::apply_rollback")
    callers = O.callers_of(ar)
    if len(callers) < 2:
        raise AnchorMissing("expected the raw and compressed callers of apply_rollback")
    for bid, root, b in callers:
        B = P.bodies[bid]
        t = B.blocks[b]["term"]
        cl = set()
        for a_ in t["args"][1:]:       # (stamp, stored_len, pushed) or a struct that carries them
            if op_place(a_) is not None:
                cl |= classes_of_slice(ctx, B, O.slice_back(B, a_))
        kind = "raw" if "raw" in bid else "compressed"
        chk.oblige("E2r %s rollback clamps the restored length by the physical length (real_stored_len in its slice)" % kind,
                   "PHYS" in cl, detail={"classes": sorted(cl)}, key="E2r|%s|apply_rollback-unclamped" % kind,
                   msg="rollback publishes a stored length that can exceed what is on disk; read-only clones and point "
                       "readers then read past the region's length")
    pins(ctx, chk, "E3")
    live_reader_at_reads(ctx, chk, "E6")
    # E3b = A10.6 a Reader owns a clone of its Region (its extent cannot be freed and handed to another region under it)
    radt = P.adts.get("rawdb::reader::Reader")
    if radt is None:
        raise AnchorMissing("ADT rawdb::reader::Reader not found")
    owns = any("rawdb::region::Region" == f["ty"].replace("crate::", "rawdb::") or f["ty"].endswith("region::Region")
               for f in radt["variants"][0]["fields"])
    chk.oblige("E3b a rawdb Reader owns a clone of its Region", owns, key="E3b|Reader|region-not-pinned",
               msg="without the clone a region can be removed under a live reader; after the next flush its extent is "
                   "reused and the reader serves another vector's bytes")
    # E7 a compressed vector's data region is cut only together with its page index: nobody in the compressed
    # variants calls Region::truncate (only truncate_write inside write(), after which the index is rewritten)
    cut = [(bid, b) for bid, root, b in O.callers_of(M(r"rawdb::region::Region::truncate"))
           if bid.startswith("vecdb::variants::compressed::") or "ReadWriteCompressedVec" in bid]
    chk.oblige("E7 no direct Region::truncate in the compressed variants [%d]" % len(cut), not cut, detail={"sites": cut},
               key="E7|compressed|direct-region-truncate",
               msg="truncating the data region without rewriting the page index leaves entries that point past the "
                   "region's length; after a re-import every read follows them")
    entry_bytes_recomputed(ctx, chk, "E4b")
    # ---------------- E5 the source of truncated values for change records consults the *previous* overlay
    csr = "vecdb::variants::raw::inner::read_write::ReadWriteRawVec::<I, T, S>::collect_stored_range"
    O.body(csr)
    r = O.reach(csr)
    for k in P.children.get(csr, []):
        r |= O.reach(k)
    chk.oblige("E5 ReadWriteRawVec::collect_stored_range consults prev_updated before reading the region",
               any(x.endswith("::prev_updated") for x in r), key="E5|collect_stored_range|prev_updated",
               msg="values beyond the on-disk length exist only in the previous overlay after a rollback; reading them "
                   "through the mmap fetches bytes past the region's length")
    # ---------------- E8 the rollback overlay is complete *before* it becomes the baseline (prev_updated)
    # (the ACCEPTED reason above and E5 both rest on it: every overlay key at or beyond the on-disk length is in
    # prev_updated, so the change-record writers take the overlay branch instead of reading the mmap past the region)
    rb = [b for b in P.bodies if re.search(r"ReadWriteRawVec<I, T, S>>::deserialize_then_undo_changes$", b)]
    if len(rb) != 1:
        raise AnchorMissing("raw deserialize_then_undo_changes not found (%d)" % len(rb))
    RB = O.body(rb[0])
    upd_save = M(r".*WithPrev::<T>::save", where=lambda body, b, t: "updated" in O.slice_back(body, t["args"][0])["fields"],
                 label="updated.save()")
    n_save = len(O.need_sites(RB, upd_save, 1))
    upd_mut = M(r".*ReadWriteRawVec::<I, T, S>::(mut_updated|update_at)|.*WithPrev::<T>::current_mut", reach=True,
                label="a write to the `updated` overlay")
    O.need_sites(RB, upd_mut, 2)
    late = O.never_after(RB, upd_save, upd_mut)
    chk.oblige("E8 raw rollback: no write to the `updated` overlay after updated.save() [%d save site(s)]" % n_save,
               not late, detail={"late_sites": [RB.blocks[b]["term"].get("span") for b in late]},
               key="E8|raw-rollback|overlay-write-after-save",
               msg="overlay entries added after the snapshot are missing from prev_updated: the next stamped write reads "
                   "their 'previous values' through the mmap beyond the region's length")
    # ---------------- E9 = D7 raw pointer copies out of a byte slice stay inside it (decoders' native-layout path)
    from props.c17 import raw_copies_bounded
    raw_copies_bounded(ctx, chk, "E9")
    # ---------------- E4 page entry after region write
    from props.c09 import CMP_WRITE, TW, CPUSH
    cw = O.body(CMP_WRITE)
    bad = O.precedes(cw, TW, CPUSH)
    chk.oblige("E4 precedes(compressed write: Region::truncate_write before Pages::checked_push)", not bad,
               key="E4|compressed-write|entry-after-data",
               msg="a page entry must describe bytes that are already inside the region, or readers slice mmap bytes "
                   "past the region's length")
    chk.cov["read_sites_by_kind"] = by_kind
    chk.cov["publications"] = pubs
    chk.sample({"rule": "E1", "sites": n_sites, "by_kind": by_kind})
    chk.assumptions.append("pointer reads behind Reader::prefixed are bounded by index guards, not by the slice: the class "
                           "of the guarding length is decided, not the multiplication index * SIZE_OF_T + HEADER_OFFSET")


def _arith_leaves(body, D, op, depth=0):
    """expression tree of an operand through casts of any kind, copies and +,-,* only."""
    if depth > 12:
        return ("?",)
    pl = op_place(op)
    if pl is None:
        return D.expr(body, op)
    if pl["p"]:
        return D.expr(body, op)
    d = D.single_def(body, pl["l"])
    if d and d[0] == "assign":
        rv = d[3]
        if rv["k"] in ("use", "cast") and rv["ops"]:
            return _arith_leaves(body, D, rv["ops"][0], depth + 1)
        if rv["k"] == "bin":
            return (rv["op"], _arith_leaves(body, D, rv["ops"][0], depth + 1), _arith_leaves(body, D, rv["ops"][1], depth + 1))
    return D.expr(body, op)


def _mentions_field(e, name):
    if isinstance(e, tuple):
        if e and e[0] == "f" and len(e) == 3 and isinstance(e[2], tuple) and e[2] and e[2][-1] == name:
            return True
        return any(_mentions_field(x, name) for x in e)
    return False


def _dom_switch(body, b):
    dom = body.dominators()
    best = None
    for g in body.reachable():
        t = body.blocks[g]["term"]
        if t["k"] == "switch" and g in dom[b] and g != b:
            best = t
    return best


def _fn(bid):
    s = re.sub(r"<impl [^>]*? for ([^>]*?)(<.*?>)?>::", lambda m: m.group(1).split("::")[-1] + "::", bid)
    s = re.sub(r"::<[^>]*>", "", s)
    parts = s.split("::")
    return "::".join(parts[-2:])
