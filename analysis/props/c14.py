"""C14 — import keeps matching data; discards only on a real version/format change (engine F)."""
import re

from order import M, names
from program import op_place
from common import AnchorMissing
import props.c13 as c13

EXPLANATION = (
    "Entry-point agreement and discard discipline over the MIR of the two inner vector types: (F1) every call of "
    "import_with made by forced_import_with passes options whose version has received the same number of "
    "`+ VERSION` applications as the plain import path (def-use slice of the options argument); (F2) the Error "
    "variants whose match arm reaches remove_region_if_exists are exactly WrongEndian / WrongLength / "
    "DifferentFormat / DifferentVersion (decoded from the switchInt on the Error discriminant, variant names from "
    "the ADT table), no wildcard arm reaches a removal, and those variants are only produced by the header / value "
    "decoders inside import's reach; (F3) raw and compressed agree and every auxiliary region named by import_with "
    "is also removed by forced_import_with; plus the ATOM instance 'plain import fails without touching data'.")

RAW = "vecdb::variants::raw::inner::read_write::ReadWriteRawVec::<I, T, S>::"
CMP = "vecdb::variants::compressed::inner::read_write::ReadWriteCompressedVec::<I, T, S>::"
DISCARD = {"WrongEndian", "WrongLength", "DifferentFormat", "DifferentVersion"}
ADD = "<vecdb::version::Version as core::ops::arith::Add>::add"
REMOVE = M(r"rawdb::Database::remove_region_if_exists|rawdb::Database::remove_region")
DECODERS = re.compile(r"vecdb::base::header::inner::HeaderInner::|.*<impl vecdb::bytes::Bytes for .*>::from_bytes|"
                      r"vecdb::base::change::cursor::ChangeCursor")


def _is_version_add(t):
    c = t["callee"]
    return c.get("path") == "core::ops::arith::Add::add" and (c.get("targs") or [""])[0] == "vecdb::version::Version"


def add_count(ctx, body, op):
    """number of distinct `Version + ..` call sites in the backward slice of an operand."""
    O = ctx.O
    sl = O.slice_back(body, op)
    n = 0
    for b, t in body.calls():
        if _is_version_add(t) and not t["dest"]["p"] and t["dest"]["l"] in sl["locals"]:
            n += 1
    return n


def aux_after_base_import(ctx, chk, rid):
    """shared by C13 and C14: inside import_with, nothing that can create or open an auxiliary region (pages index,
    holes) runs before the header of the data region was verified"""
    O, P = ctx.O, ctx.P
    BASE = M(r"vecdb::base::read_write::ReadWriteBaseVec::<I, T>::import")
    AUX = M(r"rawdb::Database::create_region_if_needed", reach=True,
            where=lambda body, b, t: not any(BASE.rx.fullmatch(n) for n in names(t)))
    for kind, pre in (("raw", RAW), ("compressed", CMP)):
        im = O.body(pre + "import_with")
        O.need_sites(im, BASE, 1)
        aux = O.sites(im, AUX)
        early = O.precedes(im, BASE, AUX) if aux else []
        chk.oblige("%s %s import_with: auxiliary regions are created/opened only after ReadWriteBaseVec::import verified "
                   "the header [%d aux site(s)]" % (rid, kind, len(aux)), not early,
                   key="%s|%s|aux-region-before-verification" % (rid, kind),
                   msg="a refused import must not leave a freshly created side region behind (new name, slot and extent)")


def version_equality_test(ctx, chk, rid):
    """shared by C14 and C19"""
    O, P = ctx.O, ctx.P
    # F6 the stored vec version is compared for (in)equality: an ordering test lets an import with a bumped own version
    # succeed on old data
    iv = O.body("vecdb::base::header::inner::HeaderInner::import_and_verify")
    dv = [b for b in iv.reachable() for st in iv.blocks[b]["stmts"]
          if st[0] == "assign" and st[2]["k"] == "agg" and st[2].get("variant") == "DifferentVersion"]
    if not dv:
        raise AnchorMissing("import_and_verify: no DifferentVersion construction")
    import props.c17 as c17
    eqs, ords = 0, 0
    dom = iv.dominators()
    for b in dv:
        gs = c17.guards_of(ctx, iv, b)
        # the nearest guard: the test whose outcome directly selects this refusal
        for g in sorted(gs, key=lambda g_: len(dom[g_["block"]]))[-1:]:
            if any(re.search(r"cmp::PartialEq(<.*>)?>?::(ne|eq)$", c) for c in g["calls"]) or g.get("binops", set()) & {"Ne", "Eq"}:
                eqs += 1
            if any(re.search(r"cmp::PartialOrd(<.*>)?>?::(lt|le|gt|ge)$|cmp::Ord>?::cmp$", c) for c in g["calls"]) \
                    or g.get("binops", set()) & {"Lt", "Le", "Gt", "Ge"}:
                ords += 1
    chk.oblige("%s import_and_verify: every DifferentVersion refusal is guarded by an (in)equality test of the versions "
               "[%d refusal(s), %d equality guards, %d ordering guards]" % (rid, len(dv), eqs, ords), eqs >= len(dv) and ords == 0,
               key="%s|import_and_verify|version-ordering-test" % rid,
               msg="a stored version that merely is not newer is accepted: results computed under an older own version "
                   "are served under the new one")


def run(ctx, chk):
    O, P = ctx.O, ctx.P
    import props.anchors as anchors
    anchors.check(ctx, chk, ['computed_field', 'computed_not_vec_version', 'stamp_field'])
    aux_after_base_import(ctx, chk, "F5")
    # F3c in the reset arm the data region goes first: its removal is the one that can refuse (a read-only clone pins
    # it), and nothing may have been discarded when it does
    for kind, pre in (("raw", RAW), ("compressed", CMP)):
        fi = O.body(pre + "forced_import_with")
        rm = M(r"rawdb::Database::remove_region(_if_exists)?")
        def named(body, b, which):
            sl = O.slice_back(body, body.blocks[b]["term"]["args"][1])
            aux = any(c.endswith("holes_region_name_with") or c.endswith("pages_region_name_with") or c.endswith("holes_region_name")
                      or c.endswith("pages_region_name") for c in sl["calls"])
            main = any(c.endswith("vec_region_name_with") or c.endswith("vec_region_name") for c in sl["calls"]) and not aux
            return main if which == "main" else aux
        MAIN = M(rm.rx.pattern, where=lambda body, b, t: named(body, b, "main"))
        AUXR = M(rm.rx.pattern, where=lambda body, b, t: named(body, b, "aux"))
        ms, xs = O.sites(fi, MAIN), O.sites(fi, AUXR)

        def both_names(b_):
            sl_ = O.slice_back(fi, fi.blocks[b_]["term"]["args"][1])
            return any(c.endswith("vec_region_name_with") or c.endswith("vec_region_name") for c in sl_["calls"])
        if not ms and xs and all(both_names(x_) for x_ in xs):
            # one removal site fed from a list of names (`for name in [data, holes] { remove(name)? }`): the order is
            # the order of the list - a value-level question this rule does not decide
            chk.oblige("F3c %s forced_import_with: the regions are removed by one site iterating a list of names "
                       "(order of the list not decided)" % kind, True)
            continue
        bad = O.precedes(fi, MAIN, AUXR) if xs else []
        chk.oblige("F3c %s forced_import_with: the data region is removed before any auxiliary region [%d + %d removals]"
                   % (kind, len(ms), len(xs)), bool(ms) and not bad, key="F3c|%s|aux-removed-before-data" % kind,
                   msg="removing the data region can be refused (RegionStillReferenced while a read-only clone lives); "
                       "side regions discarded before that are lost although the reset reported an error")
    version_equality_test(ctx, chk, "F6")
    verr = [v["name"] for v in P.adts["vecdb::error::Error"]["variants"]]
    arms = {}
    for kind, pre in (("raw", RAW), ("compressed", CMP)):
        fi = O.body(pre + "forced_import_with")
        im = O.body(pre + "import_with")
        base_import = "vecdb::base::read_write::ReadWriteBaseVec::<I, T>::import"

        def adds_to_base(fn, depth=0):
            """`+ VERSION` applications between fn's options parameter and ReadWriteBaseVec::import, summed along the
            call path through private helpers; None if fn does not reach the base import."""
            B = P.bodies[fn]
            direct = O.sites(B, M(re.escape(base_import)))
            if direct:
                return max(add_count(ctx, B, B.blocks[x]["term"]["args"][0]) for x in direct)
            if depth > 4:
                return None
            best = None
            for x, t in B.calls():
                kind, tg = P.resolve(t["callee"])
                if kind != "ws":
                    continue
                for g in tg:
                    if g.startswith(pre) and g != fn and base_import in O.reach(g) and t["args"]:
                        sub = adds_to_base(g, depth + 1)
                        if sub is not None:
                            tot = add_count(ctx, B, t["args"][0]) + sub
                            best = tot if best is None else max(best, tot)
            return best
        plain = adds_to_base(im.id)
        if plain is None:
            raise AnchorMissing("%s import_with does not reach ReadWriteBaseVec::import" % kind)
        # every call in forced_import_with that leads to the base import, with the adds on its whole path
        counts = []
        for x, t in fi.calls():
            kk, tg = P.resolve(t["callee"])
            if kk != "ws":
                continue
            for g in tg:
                if g.startswith(pre) and g != fi.id and (g == im.id or base_import in O.reach(g)) and t["args"]:
                    sub = adds_to_base(g)
                    if sub is not None:
                        counts.append(add_count(ctx, fi, t["args"][0]) + sub)
        if len(counts) < 2:
            raise AnchorMissing("%s forced_import_with: expected the first attempt and the retry (2 import calls), found %d"
                                % (kind, len(counts)))
        same = len(set(counts)) == 1
        chk.oblige("F1a %s forced_import_with: every import attempt presents the same version (`+ VERSION` applications "
                   "on each path to the header check: %s)" % (kind, counts), same, key="F1|%s|inconsistent-calls" % kind,
                   msg="the first attempt and the retry after a reset must present the same version, or every later "
                       "forced import sees a mismatch and wipes the data again")
        extra = max(counts) - plain
        chk.oblige("F1b %s: forced import presents the same stored version as plain import (paths: forced %s, plain %d)"
                   % (kind, counts, plain), same and extra == 0,
                   detail={"adds_on_forced_paths": counts, "adds_on_plain_path": plain},
                   key="F1|%s|forced-adds-%s" % (kind, extra),
                   msg="forced_import_with adds the layer VERSION and then calls import_with, which adds it again: "
                       "data written through import(v) is discarded by forced_import(v), and vice versa import "
                       "refuses forced-created data")
        # F2 discard arms
        rem = O.need_sites(fi, REMOVE, 1)
        sw = None
        for b in fi.reachable():
            t = fi.blocks[b]["term"]
            if t["k"] != "switch":
                continue
            dl = op_place(t["op"])
            if dl is None:
                continue
            for d in fi.defs().get(dl["l"], []):
                if d[0] == "assign" and d[3]["k"] == "discr":
                    pl = d[3]["place"]
                    ty = fi.locals[pl["l"]]["ty"]
                    # discriminant of the Error inside the Result
                    if any(isinstance(e, list) and e[0] == "d" and e[1] == "Err" for e in pl["p"]) and "Error" in ty:
                        sw = (b, t)
        if sw is None:
            raise AnchorMissing("%s forced_import_with: match on the Error variant not found" % kind)
        b, t = sw
        reach_rm = lambda blk: blk in rem or O.can_reach(fi, blk, rem) or blk in rem
        arm = set()
        for v, tb in t["targets"]:
            if tb in rem or O.can_reach(fi, tb, rem):
                arm.add(verr[int(v)])
        wildcard = t["otherwise"] in rem or O.can_reach(fi, t["otherwise"], rem)
        arms[kind] = arm
        chk.oblige("F2a %s forced_import_with: arms reaching a region removal = %s" % (kind, sorted(arm)),
                   arm == DISCARD and not wildcard,
                   detail={"arms": sorted(arm), "wildcard_reaches_removal": wildcard},
                   key="F2|%s|discard-arms" % kind,
                   msg="forced import may discard data only for WrongEndian/WrongLength/DifferentFormat/"
                       "DifferentVersion — never on IO, lock or other errors, never through a wildcard arm")
        # removal only after the error arm: no removal is reachable without passing that switch
        dom = fi.dominators()
        chk.oblige("F2b %s forced_import_with: every region removal is dominated by the Error-variant match" % kind,
                   all(b in dom[r] for r in rem), key="F2|%s|removal-dominated" % kind,
                   msg="forced import must not remove anything unless the first import attempt failed with a mismatch")
        # producers of the discard variants inside import's reach
        offenders = []
        reach = O.reach(im.id) | {im.id}
        for bid in sorted(reach):
            body = P.bodies.get(bid)
            if body is None or DECODERS.match(bid):
                continue
            for bb in body.reachable():
                for st in body.blocks[bb]["stmts"]:
                    if st[0] == "assign" and st[2]["k"] == "agg" and st[2].get("adt") == "vecdb::error::Error" \
                            and st[2]["variant"] in DISCARD:
                        offenders.append("%s constructs %s" % (bid, st[2]["variant"]))
        chk.oblige("F2c %s import_with: discard-class variants are produced only by the header/value decoders" % kind,
                   not offenders, detail={"offenders": offenders}, key="F2|%s|foreign-producer" % kind,
                   msg="an error that forced import treats as 'version/format mismatch' must come from header "
                       "verification; any other condition reported with such a variant makes forced import discard "
                       "intact data")
        # F3 auxiliary regions named by import_with are removed by forced_import_with
        aux = M(r".*::(pages_region_name_with|holes_region_name_with)")
        named = {names(im.blocks[x]["term"])[0] for x in O.sites(im, aux)}
        removed = set()
        for r in rem:
            sl = O.slice_back(fi, fi.blocks[r]["term"]["args"][1])
            removed |= {c for c in sl["calls"] if c.endswith("region_name_with")}
        chk.oblige("F3a %s: auxiliary regions named by import_with %s are removed by forced_import_with" % (
            kind, sorted(n.split("::")[-1] for n in named)), named <= removed and any(
            c.endswith("vec_region_name_with") for c in removed),
            detail={"named": sorted(named), "removed": sorted(removed)}, key="F3|%s|aux-regions" % kind,
            msg="a reset must discard every region of the vector (stale holes / page index would describe data that "
                "no longer exists)")
    chk.oblige("F3b raw and compressed forced imports discard on the same variant set", arms["raw"] == arms["compressed"],
               key="F3|sibling-variants", msg="sibling implementations must agree")
    # wrappers delegate 1:1 (no version arithmetic in the wrapper layer)
    n_wr = 0
    for bid, body in sorted(P.bodies.items()):
        if re.search(r"as vecdb::traits::importable::ImportableVec>::(import|import_with|forced_import|forced_import_with)$", bid):
            n_wr += 1
            adds = [1 for _, t in body.calls() if _is_version_add(t)]
            chk.oblige("F1c %s: wrapper adds no version term" % bid.split(" as ")[0].lstrip("<"), not adds,
                       key="F1|wrapper|%s" % bid, msg="version arithmetic belongs to the inner type only")
    # 4 entry points per storage wrapper: Bytes (always), ZeroCopy, Pco, LZ4, Zstd (feature-gated)
    floor = {"all": 20, "test": 8, "none": 4}.get(ctx.config, 4)
    if n_wr < floor:
        raise AnchorMissing("expected >= %d ImportableVec wrapper methods in config %s, found %d" % (floor, ctx.config, n_wr))
    # F4 a fresh header is written only into an empty region: at every Header::create_and_write site of the base
    # import, `region len <= 0` is an established fact (otherwise the stored header would be replaced unverified)
    import decode
    D = getattr(ctx, "_decode", None) or decode.Decode(P)
    ctx._decode = D
    bi = P.bodies["vecdb::base::read_write::ReadWriteBaseVec::<I, T>::import"]
    cs = O.sites(bi, M(r"vecdb::base::header::Header::create_and_write"))
    vs = O.sites(bi, M(r"vecdb::base::header::Header::import_and_verify"))
    if not cs or not vs:
        raise AnchorMissing("ReadWriteBaseVec::import: create_and_write / import_and_verify sites not found")
    for b in cs:
        facts = D.facts_at(bi, b)
        empty = any(bb == ("c", 0) and a[0] == "l" for a, bb in facts) or any(
            D.ub(facts, a) == 0 for a, _ in facts if a[0] == "l")
        chk.oblige("F4 ReadWriteBaseVec::import: Header::create_and_write only where the region length is known to be 0",
                   empty, detail={"facts": [(D.show(a), D.show(bb)) for a, bb in facts][:8]},
                   key="F4|base-import|fresh-header-on-nonempty-region",
                   msg="an existing header must be verified, never rewritten: a weakened 'is fresh' test lets a mismatching "
                       "import succeed and overwrite the stored version")
    # F1d the plain entry points of every wrapper never reach the forced path
    nf1d = 0
    for bid, body in sorted(P.bodies.items()):
        m = re.search(r"ImportableVec>::(import|import_with)$", bid) or re.search(
            r"importable::<impl vecdb::traits::importable::ImportableVec for .*>::(import|import_with)$", bid)
        if not m:
            continue
        nf1d += 1
        r = O.reach(bid)
        forced = sorted(x for x in r if x.endswith("::forced_import_with") or x.endswith("::forced_import")
                        or x.endswith("remove_region_if_exists"))
        chk.oblige("F1d %s never reaches a forced import / region removal" % bid.split(" for ")[-1][:90], not forced,
                   detail={"reaches": forced[:4]}, key="F1d|%s" % bid.split(" for ")[-1],
                   msg="plain import must fail on a mismatch and leave the data untouched; routing it to the forced path "
                       "discards data")
    floor = {"all": 12, "test": 6, "none": 4}.get(ctx.config, 4)
    if nf1d < floor:
        raise AnchorMissing("F1d: %d plain import entry points found in config %s, %d confirmed by hand" % (nf1d, ctx.config, floor))
    # ATOM: plain import leaves data untouched on mismatch
    c13.run(ctx, chk, only={RAW + "import_with", CMP + "import_with"}, prefix="ATOM14")
    chk.sample({"rule": "F2a", "discard_arms": {k: sorted(v) for k, v in arms.items()}})
