"""C19 — computed columns are recomputed exactly when input versions change (engine G + ORDER)."""
import re

from order import M, names
from program import op_place
from common import AnchorMissing

EXPLANATION = (
    "Version-coverage rule over every compute_* method of impl EagerVec: the version operand handed to "
    "compute_init / validate_computed_version_or_reset / validate_and_truncate must data-depend (backward slice over "
    "MIR, through forwarding to other compute_* methods) on every parameter whose type is bounded by ReadableVec; "
    "plus ordering rules: validation precedes truncation precedes the batch loop; the header's computed version is "
    "updated before reset and the reset can only be skipped through the is_empty test; both write() "
    "implementations persist a modified header on every exit; only the validator updates the computed version. "
    "The value of the resume index is not decided.")

VALIDATORS = {
    "vecdb::variants::eager::EagerVec::<V>::compute_init": 1,
    "vecdb::traits::writable::WritableVec::validate_computed_version_or_reset": 1,
    "vecdb::traits::writable::WritableVec::validate_and_truncate": 1,
}
SRC_TRAITS = ("vecdb::traits::readable::ReadableVec", "vecdb::traits::any::AnyVec",
              "vecdb::traits::readable::ReadableCloneableVec")
RAW_WRITE = ("vecdb::variants::raw::inner::read_write::any_stored_vec::<impl vecdb::traits::any_stored::AnyStoredVec "
             "for vecdb::variants::raw::inner::read_write::ReadWriteRawVec<I, T, S>>::write")
CMP_WRITE = ("vecdb::variants::compressed::inner::read_write::any_stored_vec::<impl vecdb::traits::any_stored::"
             "AnyStoredVec for vecdb::variants::compressed::inner::read_write::ReadWriteCompressedVec<I, T, S>>::write")


def is_compute(bid):
    return re.search(r"EagerVec<V>>::compute_\w+$", bid) is not None or bid.endswith("EagerVec::<V>::compute_init")


def sources(body):
    out = []
    for l in range(2, body.arg_count + 1):
        tb = body.locals[l].get("tbounds") or []
        ty = body.locals[l]["ty"]
        if any(t in SRC_TRAITS for t in tb) or "ReadableVec" in ty or "ReadableBoxedVec" in ty \
                or "ReadableCloneableVec" in ty:
            out.append(l)
    return out

import props.anchors as anchors


def run(ctx, chk):
    O, P = ctx.O, ctx.P
    anchors.check(ctx, chk, ['header_write', 'update_computed', 'reset_base', 'eager_version', 'computed_field',
                             'computed_not_vec_version'])
    # G8 = F6 an own-version change is noticed at import: the stored vec version is compared for (in)equality
    from props.c14 import version_equality_test
    version_equality_test(ctx, chk, "G8")
    # G7 the header is persisted whole: every region write reachable from Header::write starts at offset 0 (a partial
    # rewrite of one field can drop a pending change of another, e.g. the computed version)
    hw = "vecdb::base::header::Header::write"
    n7, bad7 = 0, []
    for g in sorted({hw} | {x for x in O.reach(hw) if x.startswith("vecdb::base::header::")}):
        G = P.bodies.get(g)
        if G is None:
            continue
        for b in O.sites(G, M(r"rawdb::region::Region::(write_at|write|truncate_write)")):
            t = G.blocks[b]["term"]
            n7 += 1
            off = t["args"][2] if names(t)[0].endswith("write_at") else (t["args"][1] if names(t)[0].endswith("truncate_write") else None)
            if off is None or O.const_of(G, off) != "0":
                bad7.append("%s at %s" % (g.split("::")[-1], t.get("span")))
    chk.oblige("G7 Header::write persists the whole header: every region write it reaches starts at offset 0 [%d write(s)]"
               % n7, n7 >= 1 and not bad7, detail={"partial_writes": bad7}, key="G7|Header::write|partial-header-write",
               msg="a stamp-only (or other partial) header write can be chosen while a full write is pending: the new "
                   "computed version never reaches the disk and a re-import pairs new results with the old version")
    comp = {bid: b for bid, b in P.bodies.items() if is_compute(bid) and b.kind != "closure"}
    if len(comp) < 40:
        raise AnchorMissing("expected >= 40 compute_* methods of EagerVec, found %d" % len(comp))
    for v in VALIDATORS:
        if v not in P.bodies:
            raise AnchorMissing("validator %s not found" % v)
    # covered[(fn, param)] fixpoint: param flows into a validating version operand
    covered = {(v, i + 1) for v, i in VALIDATORS.items()}   # arg index -> local = idx+1
    slices = {}

    def arg_slices(body):
        """[(callee ids, [params in slice of each arg])] for every call to a validator or compute_* (incl. closures)."""
        if body.id in slices:
            return slices[body.id]
        out = []
        for bb in [body] + [P.bodies[k] for k in _closures(P, body.id)]:
            for b, t in bb.calls():
                kind, tg = P.resolve(t["callee"])
                if kind != "ws":
                    continue
                tg = [g for g in tg if g in VALIDATORS or is_compute(g)]
                if not tg:
                    continue
                per = []
                for a in t["args"]:
                    if op_place(a) is None:
                        per.append(set())
                        continue
                    sl = O.slice_back(bb, a)
                    ps = set(sl["params"])
                    if bb is not body:
                        # closure: captured variables of the parent are reached through the env (local 1)
                        ps = _map_closure_params(ctx, body, bb, a)
                    per.append(ps)
                out.append((tg, per, bb.blocks[b]["term"].get("span")))
        slices[body.id] = out
        return out

    changed = True
    rounds = 0
    while changed:
        changed = False
        rounds += 1
        for bid, body in comp.items():
            for tg, per, _ in arg_slices(body):
                for g in tg:
                    for j, ps in enumerate(per):
                        if (g, j + 1) in covered:
                            for p in ps:
                                if (bid, p) not in covered:
                                    covered.add((bid, p))
                                    changed = True
        if rounds > 20:
            break
    n_src = 0
    public = 0
    for bid, body in sorted(comp.items()):
        if bid.endswith("compute_init"):
            continue
        srcs = sources(body)
        n_src += len(srcs)
        public += 1 if body.pub else 0
        missing = [l for l in srcs if (bid, l) not in covered]
        validates = any(arg_slices(body))
        nm = bid.split("::")[-1]
        chk.oblige("G1 %s: version operand covers every source parameter %s" % (nm, [body.name_of.get(l, l) for l in srcs]),
                   validates and not missing,
                   detail={"function": bid, "uncovered_sources": [body.name_of.get(l, "_%d" % l) for l in missing],
                           "validating_or_forwarding_calls": [s for _, _, s in arg_slices(body)]},
                   key="G1|%s" % nm,
                   msg="the version presented at compute time must depend on every source vector (else results computed "
                       "under a different source version are kept)")
    # G1b the validation is not skippable: every Ok return of a compute_* method is preceded by a validating
    # call (compute_init / validate_*) or by a forward to another compute_* method
    vm = M(r".*", where=lambda body, b, t: any(
        (g in VALIDATORS or is_compute(g)) for g in (P.resolve(t["callee"])[1] if P.resolve(t["callee"])[0] == "ws" else [])))
    for bid, body in sorted(comp.items()):
        if bid.endswith("compute_init"):
            continue
        vs = O.sites(body, vm)
        inn = O.seen_before(body, vs)
        ek = O.exit_kinds(body)
        bad = [b for b, k in ek.items() if k == "ok" and not inn[b] and b not in vs]
        nm = bid.split("::")[-1]
        chk.oblige("G1b %s: every Ok return passes the version validation" % nm, not bad,
                   detail={"unvalidated_returns": [body.blocks[b]["term"].get("span") or bid for b in bad]},
                   key="G1b|%s" % nm,
                   msg="a compute call must not return Ok without having compared versions (a source whose version "
                       "changed but whose length did not would keep stale results)")
    # G2b nothing is read from the column itself before the version was validated (a value read before the reset
    # belongs to the old version)
    reads_self = re.compile(r"vecdb::traits::readable::ReadableVec::(collect_one_at|collect_one|read_into_at|fold_range_at|"
                            r"try_fold_range_at|for_each_range_dyn_at|collect_range_at|collect_range|collect|get|cursor|"
                            r"read_sorted_into_at|min|max|sum)$")

    def _reads_column(body, b, t):
        if not t["args"] or op_place(t["args"][0]) is None:
            return False
        if 1 not in O.slice_back(body, t["args"][0])["params"]:
            return False
        nm = names(t)
        if any(reads_self.match(n) for n in nm):
            return True
        kind, tg = P.resolve(t["callee"])
        if kind == "ws":
            return any(g not in VALIDATORS and not is_compute(g) and any(reads_self.match(x) for x in O.reach(g))
                       for g in tg)
        return False
    rm = M(r".*", where=_reads_column, label="read of the column's own stored values")
    for bid, body in sorted(comp.items()):
        if bid.endswith("compute_init"):
            continue
        rs = O.sites(body, rm)
        if not rs:
            continue
        bad = O.precedes(body, vm, rm)
        nm = bid.split("::")[-1]
        chk.oblige("G2b %s: own stored values are read only after the version validation [%d read site(s)]" % (nm, len(rs)),
                   not bad, detail={"early_reads": [body.blocks[b]["term"].get("span") for b in bad]},
                   key="G2b|%s" % nm,
                   msg="a value read from the column before the version check may belong to results of another version "
                       "and be mixed into the recomputed ones")
    chk.cov["compute_methods"] = len(comp) - 1
    chk.cov["source_parameters"] = n_src
    # G2 ordering inside compute_init
    ci = O.body("vecdb::variants::eager::EagerVec::<V>::compute_init")
    val = M(r"vecdb::traits::writable::WritableVec::validate_computed_version_or_reset")
    trunc = M(r"vecdb::traits::writable::WritableVec::truncate_if_needed(_at)?")
    rep = M(r"vecdb::variants::eager::EagerVec::<V>::repeat_until_complete")
    vt = M(r"vecdb::traits::writable::WritableVec::validate_and_truncate")
    units = [(ci, val, trunc, "validate before truncate"), (ci, trunc, rep, "truncate before the batch loop"),
             (ci, val, rep, "validate before the batch loop")]
    if O.sites(ci, vt) and not O.sites(ci, val):
        # compute_init goes through the provided helper validate_and_truncate: the first ordering is the helper's
        vtb = O.body("vecdb::traits::writable::WritableVec::validate_and_truncate")
        units = [(vtb, val, trunc, "validate before truncate"), (ci, vt, rep, "truncate before the batch loop"),
                 (ci, vt, rep, "validate before the batch loop")]
    for body_, a, b, what in units:
        O.need_sites(body_, a, 1)
        O.need_sites(body_, b, 1)
        bad = O.precedes(body_, a, b)
        chk.oblige("G2 precedes(compute_init: %s)" % what, not bad, key="G2|compute_init|%s" % what,
                   msg="stale results must be discarded (and the prefix cut back) before anything is computed")
    # every compute_* that validates directly (not via compute_init) does so before it pushes
    push = M(r"vecdb::traits::writable::WritableVec::(checked_push|checked_push_at|push)", reach=False)
    direct = 0
    for bid, body in sorted(comp.items()):
        vs = O.sites(body, M(r"vecdb::traits::writable::WritableVec::(validate_computed_version_or_reset|validate_and_truncate)"))
        if not vs or bid.endswith("compute_init"):
            continue
        direct += 1
        loopm = M(r"vecdb::variants::eager::EagerVec::<V>::repeat_until_complete|"
                  r"vecdb::traits::writable::WritableVec::(checked_push|checked_push_at|push|truncate_if_needed|truncate_if_needed_at)")
        bad = O.precedes(body, M(r"vecdb::traits::writable::WritableVec::(validate_computed_version_or_reset|validate_and_truncate)"), loopm)
        chk.oblige("G2 precedes(%s: validate before truncate/push/batch loop)" % bid.split("::")[-1], not bad,
                   key="G2|%s|validate-first" % bid.split("::")[-1],
                   msg="stale results must be discarded before anything is computed")
    # G3 validator
    vb = O.body("vecdb::traits::writable::WritableVec::validate_computed_version_or_reset")
    upd = M(r"vecdb::base::header::Header::update_computed_version")
    rst = M(r"vecdb::traits::writable::WritableVec::reset")
    emp = M(r"vecdb::traits::any::AnyVec::is_empty")
    O.need_sites(vb, upd, 1)
    rs = O.sites(vb, rst)
    chk.oblige("G3 validate_computed_version_or_reset calls reset()", bool(rs), key="G3|validator|reset-present",
               msg="a version change must discard all stored results")
    if rs:
        bad = O.precedes(vb, upd, rst)
        chk.oblige("G3 precedes(validator: update_computed_version before reset)", not bad,
                   key="G3|validator|update-before-reset", msg="the new version is recorded before results are discarded")
        # the only way from update_computed_version to the Ok return that avoids reset is through is_empty
        bad = O.followed_by(vb, upd, M(rst.rx.pattern + "|" + emp.rx.pattern), exits="ok")
        chk.oblige("G3 followed_by(validator: update_computed_version -> reset | is_empty test)", not bad,
                   key="G3|validator|reset-or-empty", msg="the reset may only be skipped for an empty vector")
        # reset is guarded by is_empty only: the is_empty call dominates reset
        bad = O.precedes(vb, emp, rst)
        chk.oblige("G3 precedes(validator: is_empty test before reset)", not bad, key="G3|validator|empty-guard",
                   msg="the reset decision depends on emptiness only")
    # the comparison that guards the update depends on the stored computed version, the vec version and the argument
    us = O.sites(vb, upd)
    ok = False
    dom = vb.dominators()
    for b in vb.reachable():
        t = vb.blocks[b]["term"]
        if t["k"] == "switch" and all(b in dom[u] for u in us):
            sl = O.slice_back(vb, t["op"])
            if "vecdb::base::header::Header::computed_version" in sl["calls"] and \
                    "vecdb::base::header::Header::vec_version" in sl["calls"] and 2 in sl["params"]:
                ok = True
    chk.oblige("G3 flows_to(validator: comparison of stored computed_version with vec_version + dep_version guards the update)",
               ok, key="G3|validator|comparison", msg="the decision must compare the recorded version with the presented one")
    # G4 write(): header persisted on every exit
    whn = M(r"vecdb::base::read_write::ReadWriteBaseVec::<I, T>::write_header_if_needed")
    for fn in (RAW_WRITE, CMP_WRITE):
        body = O.body(fn)
        inn = O.seen_before(body, O.sites(body, whn))
        ek = O.exit_kinds(body)
        bad = [b for b, k in ek.items() if k == "ok" and not inn[b] and b not in O.sites(body, whn)]
        chk.oblige("G4 precedes(%s write(): write_header_if_needed before every Ok return) [%d exits]" % (
            "raw" if fn == RAW_WRITE else "compressed", sum(1 for k in ek.values() if k == "ok")), not bad,
            key="G4|%s|write_header_if_needed" % ("raw" if fn == RAW_WRITE else "compressed"),
            msg="the recorded version must reach the region on the next write, including the early Ok(false)")
    hb = O.body("vecdb::base::read_write::ReadWriteBaseVec::<I, T>::write_header_if_needed")
    chk.oblige("G4 write_header_if_needed reaches Header::write", "vecdb::base::header::Header::write" in O.reach(hb.id),
               key="G4|write_header_if_needed|Header::write", msg="a modified header must be written")
    # G5
    bad, n = O.only_callers(upd, {"vecdb::traits::writable::WritableVec::validate_computed_version_or_reset"})
    chk.oblige("G5 only_callers(Header::update_computed_version) = {validate_computed_version_or_reset} [%d sites]" % n,
               not bad and n >= 1, detail={"offenders": bad}, key="G5|only_callers|update_computed_version",
               msg="the recorded computed version changes only through the validator")
    chk.sample({"rule": "G1", "methods": len(comp) - 1, "source_params": n_src, "directly_validating": direct})
    chk.assumptions.append("a source is a parameter whose type is bounded by ReadableVec (driver: trait bounds of the "
                           "peeled parameter type); versions of sources reached only through user closures are the caller's")


def _closures(P, bid, acc=None):
    acc = acc if acc is not None else []
    for k in P.children.get(bid, []):
        acc.append(k)
        _closures(P, k, acc)
    return acc


def _map_closure_params(ctx, parent, clo, op):
    """params of `parent` that an operand inside closure `clo` depends on through captured variables."""
    O, L = ctx.O, ctx.L
    sl = O.slice_back(clo, op)
    out = set()
    if 1 not in sl["locals"]:
        return out
    # which upvar fields of the env are projected in the closure's slice?  map each to the parent's operand
    chain = []
    b = clo
    while b.id != parent.id:
        chain.append(b)
        b = ctx.P.bodies[b.parent]
    # only direct children are mapped precisely; deeper nesting falls back to "all captured params"
    K = chain[-1]
    ops = L.agg_site(parent, K.id)
    if not ops:
        return out
    for o in ops:
        if op_place(o) is not None:
            out |= O.slice_back(parent, o)["params"]
    return out
