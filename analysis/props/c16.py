"""C16 — rollback is bounded by retention and refuses rather than guesses: refusal clauses (DESIGN §4 C16)."""
import re

from order import M, names
from program import op_place, op_local
from common import AnchorMissing
import props.c13 as c13
import props.c17 as c17

EXPLANATION = (
    "Refusal clauses of rollback decided over MIR: (ATOM) no error exit of rollback() — raw and compressed — after "
    "an observable mutation, so a failed single rollback leaves the vector unchanged; (B16.1) in rollback_before the "
    "branch that builds StampMismatch depends on both the record's stamp and the vector's stamp and dominates the "
    "rollback() call, and save_rollback_state runs only after the loop; (B16.2) in save_change_file records with a "
    "stamp at or above the new one are removed before the new record is written, and the retention arithmetic counts "
    "only records filtered against the new stamp; (DECODE) the change-record cursor and parsers cannot panic or "
    "over-allocate on a truncated or malformed record. The count 'exactly min(k, commits)' is not decided.")

RB = "vecdb::traits::writable::WritableVec::rollback_before"
SCF = "vecdb::base::rollback::<impl vecdb::base::read_write::ReadWriteBaseVec<I, T>>::save_change_file"


def no_save_after_refusal(ctx, chk, rid):
    """shared by C16 and C13: in rollback_before, save_rollback_state is not reachable from the StampMismatch refusal
    nor from the failure edge of rollback()."""
    O = ctx.O
    F = O.body(RB)
    mism = [b for b in F.reachable() for st in F.blocks[b]["stmts"]
            if st[0] == "assign" and st[2]["k"] == "agg" and st[2].get("variant") == "StampMismatch"]
    srs = O.need_sites(F, M(r"vecdb::traits::writable::WritableVec::save_rollback_state"), 1)
    bad = O.after_failure(ctx.P.bodies[RB], M(r"vecdb::traits::writable::WritableVec::rollback"),
                          M(r"vecdb::traits::writable::WritableVec::save_rollback_state"))
    after_mismatch = [s for s in srs if any(O.can_reach(F, m, [s]) for m in mism)]
    chk.oblige("%s rollback_before: save_rollback_state is not reachable after a refusal (StampMismatch) or a failed "
               "rollback()" % rid, not bad and not after_mismatch, key="%s|rollback_before|save-after-failure" % rid,
               msg="a refused rollback_before must not snapshot uncommitted edits into the previous-state buffers (the "
                   "next commit would record them and a later rollback would resurrect them)")


_BYTES, _POS = "bytes", "pos"


def run(ctx, chk):
    O, P = ctx.O, ctx.P
    import props.anchors as anchors
    global _BYTES, _POS
    _BYTES, _POS = anchors.cursor_fields(P)
    anchors.check(ctx, chk, ['reset_drops_changes', 'raw_save_rb', 'cmp_save_rb'])
    # ATOM instances
    c13.run(ctx, chk, only={c13.RAW_W + "rollback", c13.CMP_W + "rollback"}, prefix="ATOM16")
    # B16.1
    F = O.body(RB)
    rb = O.need_sites(F, M(r"vecdb::traits::writable::WritableVec::rollback"), 1)
    mism = [b for b in F.reachable() for st in F.blocks[b]["stmts"]
            if st[0] == "assign" and st[2]["k"] == "agg" and st[2].get("variant") == "StampMismatch"]
    chk.oblige("B16.1 rollback_before builds Error::StampMismatch", bool(mism), key="B16.1|StampMismatch-present",
               msg="a broken change-file chain must be refused, not guessed")
    if mism:
        dom = F.dominators()
        ok = False
        for b in F.reachable():
            t = F.blocks[b]["term"]
            if t["k"] != "switch" or not all(b in dom[r] for r in rb):
                continue
            # one edge leads to the mismatch error (cannot reach rollback), the other to rollback
            succ = F.succ(b)
            to_err = [s for s in succ if any(s == m or O.can_reach(F, s, [m]) for m in mism)
                      and not any(s == r or _reach_wo(O, F, s, rb, mism) for r in rb)]
            to_rb = [s for s in succ if any(s == r or O.can_reach(F, s, [r]) for r in rb)]
            if not to_err or not to_rb:
                continue
            sl = O.slice_back(F, t["op"])
            dep_stamp = any(c.endswith("::stamp") for c in sl["calls"])
            dep_file = bool(sl["calls"] & {c for c in sl["calls"] if "Iterator" in c or "next" in c or "range" in c}) \
                or any("next" in c for c in sl["calls"])
            if dep_stamp and dep_file:
                ok = True
        chk.oblige("B16.1 the StampMismatch test (record stamp vs vector stamp) dominates every rollback() in the loop",
                   ok, key="B16.1|mismatch-guards-rollback",
                   msg="each step of rollback_before must verify that the newest remaining record matches the vector's "
                       "stamp before applying it")
    srs = O.need_sites(F, M(r"vecdb::traits::writable::WritableVec::save_rollback_state"), 1)
    late = O.never_after(F, M(r"vecdb::traits::writable::WritableVec::save_rollback_state"),
                         M(r"vecdb::traits::writable::WritableVec::rollback"))
    chk.oblige("B16.1 save_rollback_state runs only after the loop (no rollback() after it)", not late,
               key="B16.1|save-after-loop", msg="rollback state is saved once, after the last applied record")
    no_save_after_refusal(ctx, chk, "B16.1c")
    from props.c17 import raw_undo_validates_all
    raw_undo_validates_all(ctx, chk, "B16.8")
    save = M(r"vecdb::traits::writable::WritableVec::save_rollback_state", reach="must")
    inn = O.seen_before(F, O.sites(F, save))
    ek = O.exit_kinds(F)
    early = [b for b, k in ek.items() if k == "ok" and not inn[b]]
    chk.oblige("B16.1d rollback_before: every Ok return has saved the rollback state [%d ok exits]" % sum(
        1 for k in ek.values() if k == "ok"), not early, key="B16.1d|rollback_before|ok-without-save",
        msg="after a successful rollback_before the previous-state buffers must be re-based on the restored state, or the "
            "next change record describes a truncation that never happened and a later rollback resurrects the abandoned "
            "future")
    # B16.2
    S = O.body(SCF)
    wr = O.need_sites(S, M(r"std::fs::write"), 1)
    rm_stale = M(r"std::fs::remove_file", reach=True, label="removal of records (incl. in the directory-scan closure)")
    rms = O.sites(S, rm_stale)
    after = O.never_after(S, M(r"std::fs::write"), rm_stale)
    chk.oblige("B16.2 save_change_file: stale/old records are removed before fs::write of the new record, never after "
               "[%d removal site(s)]" % len(rms), bool(rms) and all(O.can_reach(S, r, wr) for r in rms) and not after,
               key="B16.2|remove-before-write", msg="records of an abandoned future must be gone before the new one exists")
    # the stale-record removal is conditional on a comparison with the new stamp (param 2)
    cmp_ok = False
    for bid in [SCF] + _closures(P, SCF):
        B = P.bodies[bid]
        if not O.sites(B, M(r"std::fs::remove_file")):
            continue
        for b in B.reachable():
            t = B.blocks[b]["term"]
            if t["k"] == "switch":
                sl = O.slice_back(B, t["op"])
                if any("PartialOrd" in c or "::lt" in c or "::ge" in c or "cmp" in c for c in sl["calls"]) or True:
                    # condition compares a parsed stamp with the captured/new stamp
                    if (B.kind == "closure" and 1 in sl["locals"]) or (B.kind != "closure" and 2 in sl["params"]):
                        succ = B.succ(b)
                        rms = O.sites(B, M(r"std::fs::remove_file"))
                        if any(O.can_reach(B, s, rms) or s in rms for s in succ) and \
                                not all(O.can_reach(B, s, rms) or s in rms for s in succ):
                            cmp_ok = True
    chk.oblige("B16.2 stale-record removal is guarded by a comparison with the new stamp", cmp_ok,
               key="B16.2|stale-guard", msg="only records with a stamp at or above the new stamp are abandoned-future records")
    # retention arithmetic counts only records that passed the `< stamp` filter
    ss = O.sites(S, M(r"core::num::<impl usize>::saturating_sub"))
    if not ss:
        raise AnchorMissing("save_change_file: retention arithmetic (saturating_sub) not found")
    for b in ss:
        t = S.blocks[b]["term"]
        sl = O.slice_back(S, t["args"][0])
        srcs = {c for c in sl["calls"]}
        filtered = 2 in sl["params"]
        chk.oblige("B16.2 flows_to(save_change_file: the retention count depends on the new stamp, i.e. is taken over "
                   "the records filtered against it)", filtered, detail={"count_sources": sorted(srcs)[:10]},
                   key="B16.2|retention-count-source",
                   msg="the number of records to prune must be computed over records older than the new stamp only "
                       "(abandoned-future records must not count against the retention window)")
    # B16.9 the pruning loop removes oldest-first by NUMERIC stamp: the paths it removes are enumerated from a
    # collection ordered by the parsed stamp (file names are decimal numbers: text order is not stamp order)
    from order import iteration_order
    # (the pruning removals are the ones that run after the retention count was computed; the removal of
    # abandoned-future records happens during the directory scan, before it)
    own = [b for b in O.sites(S, M(r"std::fs::remove_file")) if any(O.can_reach(S, x, [b]) for x in ss)]
    numeric = re.compile(r"Stamp|\b(u64|usize|u128|u32)\b")
    for b in own:
        orders = iteration_order(O, S, S.blocks[b]["term"]["args"][0])
        sl = O.slice_back(S, S.blocks[b]["term"]["args"][0])
        if not orders:
            ok = any("btree::map::BTreeMap" in c for c in sl["calls"])
        else:
            ok = all((k in ("btree", "sorted-seq")) and numeric.search(ty) for k, ty in orders)
        chk.oblige("B16.9 save_change_file: the records pruned for retention are enumerated in numeric stamp order %s"
                   % (orders,), ok, key="B16.9|save_change_file|prune-order",
                   msg="pruning `excess` records must drop the OLDEST stamps; an order that is not keyed by the parsed "
                       "stamp (e.g. path text: '10' < '9') deletes a recent record and keeps an old one, so rollback "
                       "past the missing stamp fails or restores the wrong state")
    if not own:
        raise AnchorMissing("save_change_file: pruning remove_file site not found")
    # DECODE subset
    subset = [b for b in c17.decoder_bodies(P, O) if "ChangeCursor" in b or "parse_change_data" in b
              or "parse_raw_change_data" in b or "::rollback::" in b or "::change::" in b]
    cur = "vecdb::base::change::cursor::ChangeCursor::<'a>::"
    chkrem = M(r"vecdb::base::change::cursor::ChangeCursor::<'a>::check_remaining", reach="must")
    for meth in ("read_u64", "read_stamp", "skip", "read_values"):
        B = O.body(cur + meth)
        a_sites = O.sites(B, chkrem)
        inn = O.seen_before(B, a_sites)
        adv = [b for b in B.reachable() for st in B.blocks[b]["stmts"]
               if st[0] == "assign" and any(isinstance(e, list) and e[0] == "f" and e[2] == _POS for e in st[1]["p"])]
        idx = [b for b, t in B.calls() if any(n.endswith("Index::index") or n.endswith("::get") for n in names(t))
               and _BYTES in str(O.slice_back(B, t["args"][0])["fields"])]
        bad = [b for b in adv + idx if not inn[b]]
        chk.oblige("D16.7 ChangeCursor::%s: check_remaining precedes every access to `bytes` and every advance of `pos`"
                   % meth, bool(a_sites) and not bad, key="D16.7|ChangeCursor::%s|unchecked-window" % meth,
                   msg="a truncated change record must be refused: each read checks that the whole window lies inside the "
                       "record before touching it")
    if len(subset) < 5:   # 8+ today; inlining a single-use parser legitimately lowers the count
        raise AnchorMissing("expected >= 5 change-record decoder bodies, found %d" % len(subset))
    total, kinds = c17.run_sites(ctx, chk, subset, prefix="D16")
    chk.cov["change_record_decoders"] = len(subset)
    chk.cov["sites_by_kind"] = kinds
    chk.sample({"rule": "B16.1", "function": RB, "rollback_sites": len(rb)})


def _closures(P, bid, acc=None):
    acc = acc if acc is not None else []
    for k in P.children.get(bid, []):
        acc.append(k)
        _closures(P, k, acc)
    return acc


def _reach_wo(O, F, s, targets, avoid):
    """can s reach a target without passing an `avoid` block?"""
    seen = set()
    st = [s]
    av = set(avoid)
    tg = set(targets)
    while st:
        x = st.pop()
        if x in seen or x in av:
            continue
        seen.add(x)
        if x in tg:
            return True
        st.extend(F.succ(x))
    return False
