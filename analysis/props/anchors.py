"""Anchor integrity: the helpers that other rules treat as primitives must still perform their primitive
effect (a rule "sync_data precedes X" is worthless if Regions::sync_data no longer syncs).  Each entry:
(body id, kind, argument, what).  kinds: must_reach (every Ok path performs a call matching the regex, through
wrappers), reach (some path), mut_field (takes `&mut` of / assigns the named field), locks (acquires class),
precedes (A before B inside the body), const_arg (call passes the constant)."""
from order import M, names
from program import op_place
from common import AnchorMissing

T = {
    "regions_sync": ("rawdb::regions::Regions::sync_data", "must_reach", r"std::fs::File::sync_(data|all)",
                     "Regions::sync_data must fdatasync the metadata file"),
    "regions_flush": ("rawdb::regions::Regions::flush", "must_reach", r"memmap2::MmapMut::flush(_async)?(_range)?",
                      "Regions::flush must schedule writeback of the metadata mapping"),
    "write_if_dirty": ("rawdb::region_metadata::RegionMetadata::write_if_dirty", "reach", r"rawdb::regions::Regions::write_at",
                       "write_if_dirty must write the metadata slot"),
    "regions_write_at": ("rawdb::regions::Regions::write_at", "must_reach", r"rawdb::mmap::write_to_mmap",
                         "Regions::write_at must copy the slot into the metadata mapping"),
    "write_to_mmap": ("rawdb::mmap::write_to_mmap", "must_reach", r"core::(ptr|intrinsics)::copy_nonoverlapping",
                      "write_to_mmap must copy the bytes"),
    "db_write": ("rawdb::Database::write", "must_reach", r"rawdb::mmap::write_to_mmap", "Database::write must write"),
    "db_copy": ("rawdb::Database::copy", "reach", r"rawdb::mmap::write_to_mmap", "Database::copy must copy"),
    "mark_dirty": ("rawdb::region::Region::mark_dirty", "locks", "DIRTY", "mark_dirty must update the dirty bounds"),
    "mark_dirty_abs": ("rawdb::region::Region::mark_dirty_abs", "must_reach", r"rawdb::region::Region::mark_dirty",
                       "mark_dirty_abs must record the range"),
    "take_dirty": ("rawdb::region::Region::take_dirty_bounds", "locks", "DIRTY", "take_dirty_bounds reads the dirty bounds"),
    "reserve": ("rawdb::layout::Layout::reserve", "mut_field", "start_to_reserved", "Layout::reserve must record the reservation"),
    "take_reserved": ("rawdb::layout::Layout::take_reserved", "mut_field", "start_to_reserved",
                      "Layout::take_reserved must drop the reservation"),
    "remove_region_pending": ("rawdb::layout::Layout::remove_region", "mut_field", "pending_holes",
                              "a removed region's extent must become a pending hole"),
    "promote_reads_pending": ("rawdb::layout::Layout::promote_pending_holes", "mut_field", "pending_holes",
                              "promotion must consume the pending holes"),
    "promote_inserts": ("rawdb::layout::Layout::promote_pending_holes", "reach", r"rawdb::layout::Layout::insert_hole",
                        "promotion must turn pending holes into reusable holes"),
    # ("reach", not "must": a punch that splits a long range into several requests has a zero-iteration path)
    "punch": ("rawdb::hole_punch::HolePunch::punch", "reach", r"libc::.*::fallocate", "HolePunch::punch must call fallocate"),
    "set_min_len_remap": ("rawdb::Database::set_min_len", "precedes", (r"std::fs::File::set_len", r"rawdb::mmap::create_mmap"),
                          "the mapping must be recreated after the file was grown"),
    "update_stored_len": ("vecdb::base::read_write::ReadWriteBaseVec::<I, T>::update_stored_len", "must_reach",
                          r"vecdb::base::shared_len::SharedLen::set", "update_stored_len must publish through SharedLen::set"),
    "stored_len": ("vecdb::base::read_only::ReadOnlyBaseVec::<I, T>::stored_len", "must_reach",
                   r"vecdb::base::shared_len::SharedLen::get", "stored_len must load the shared length"),
    "truncate_write": ("rawdb::region::Region::truncate_write", "const_arg", (r"rawdb::region::Region::write_with", 3, "1"),
                       "truncate_write must call write_with(.., truncate = true)"),
    "region_write": ("rawdb::region::Region::write", "const_arg", (r"rawdb::region::Region::write_with", 3, "0"),
                     "Region::write must append without truncation"),
    "pages_push": ("vecdb::variants::compressed::inner::pages::Pages::checked_push", "mut_field", "vec",
                   "checked_push must append the page entry"),
    "pages_truncate": ("vecdb::variants::compressed::inner::pages::Pages::truncate", "mut_field", "vec",
                       "Pages::truncate must cut the page table"),
    "pages_flush": ("vecdb::variants::compressed::inner::pages::Pages::flush", "reach", r"rawdb::region::Region::truncate_write",
                    "Pages::flush must write the changed entries"),
    "create_reader": ("rawdb::region::Region::create_reader", "must_reach", r"rawdb::reader::Reader::new",
                      "create_reader must build a Reader"),
    "reader_new_mmap": ("rawdb::reader::Reader::new", "must_reach", r"rawdb::Database::mmap",
                        "a Reader must take the mmap read lock"),
    "header_write": ("vecdb::base::header::Header::write", "reach", r"rawdb::region::Region::write_at",
                     "Header::write must write the header bytes"),
    "update_computed": ("vecdb::base::header::Header::update_computed_version", "locks", "HEADER",
                        "update_computed_version must store under the header write lock"),
    "reset_base": ("vecdb::base::read_write::ReadWriteBaseVec::<I, T>::reset_base", "reach",
                   r"vecdb::base::shared_len::SharedLen::set|vecdb::base::read_write::ReadWriteBaseVec::<I, T>::update_stored_len",
                   "reset must publish length 0"),
    "eager_version": ("vecdb::variants::eager::any_vec::<impl vecdb::traits::any::AnyVec for vecdb::variants::eager::EagerVec<V>>::version",
                      "must_reach", r"vecdb::base::header::Header::computed_version",
                      "an EagerVec reports its computed version (so that columns derived from it are invalidated when it is)"),
    "computed_field": ("vecdb::base::header::Header::update_computed_version", "mut_field", "computed_version",
                       "update_computed_version must store into HeaderInner.computed_version (and nothing else)"),
    "stamp_field": ("vecdb::base::header::Header::update_stamp", "mut_field", "stamp",
                    "update_stamp must store into HeaderInner.stamp"),
    "computed_not_vec_version": ("vecdb::base::header::Header::update_computed_version", "not_mut_field", "vec_version",
                                 "update_computed_version must not touch the stored vec version (import compares it)"),
    "reset_drops_changes": ("vecdb::base::read_write::ReadWriteBaseVec::<I, T>::reset_base", "must_reach",
                            r"std::path::Path::exists|std::fs::remove_dir_all",
                            "reset must discard the change records of the history it abandons on every path"),
    "raw_save_rb": ("vecdb::variants::raw::inner::read_write::writable::<impl vecdb::traits::writable::WritableVec<I, T> for "
                    "vecdb::variants::raw::inner::read_write::ReadWriteRawVec<I, T, S>>::save_rollback_state", "must_reach",
                    r"vecdb::base::rollback::<impl vecdb::base::read_write::ReadWriteBaseVec<I, T>>::save_prev_for_rollback",
                    "save_rollback_state re-bases the previous-state buffers on the CURRENT buffers (incl. pushed values)"),
    "cmp_save_rb": ("vecdb::variants::compressed::inner::read_write::writable::<impl vecdb::traits::writable::WritableVec<I, T> for "
                    "vecdb::variants::compressed::inner::read_write::ReadWriteCompressedVec<I, T, S>>::save_rollback_state",
                    "must_reach",
                    r"vecdb::base::rollback::<impl vecdb::base::read_write::ReadWriteBaseVec<I, T>>::save_prev_for_rollback",
                    "save_rollback_state re-bases the previous-state buffers on the CURRENT buffers (incl. pushed values)"),
    "try_lock_regions": ("rawdb::regions::Regions::open", "must_reach", r"std::fs::File::try_lock",
                         "Regions::open must take the advisory lock"),
    "sync_bg_joins": ("rawdb::Database::sync_bg_tasks", "reach", r"std::thread::(join_handle::)?JoinHandle::<T>::join",
                      "sync_bg_tasks must join the background tasks"),
}


def mut_field(body, field):
    for b in body.reachable():
        for st in body.blocks[b]["stmts"]:
            if st[0] != "assign":
                continue
            rv = st[2]
            if rv["k"] in ("ref", "rawptr") and rv.get("mut") and any(
                    isinstance(e, list) and e[0] == "f" and e[2] == field for e in rv["place"]["p"]):
                return True
            if any(isinstance(e, list) and e[0] == "f" and e[2] == field for e in st[1]["p"]):
                return True
            for o in rv.get("ops", []):
                pl = op_place(o)
                if pl and "m" in o and any(isinstance(e, list) and e[0] == "f" and e[2] == field for e in pl["p"]):
                    return True   # moved out (mem::take style)
    return False


# private convenience helpers that a refactoring may inline away (everything else is API other rules name)
OPTIONAL = {"mark_dirty_abs", "write_to_mmap", "regions_write_at", "regions_flush"}


# fields that rules name (who-may-write tables, slices that look for `.start` / `.bytes`, drop order): the rule tables
# are configured with these names, exactly like a lint configured with function names.  If one of them no longer
# exists the tables are out of date - that is reported as such (exit 2), never as a property violation.
NAMED_FIELDS = {
    "rawdb::layout::Layout": ["start_to_region", "start_to_hole", "hole_to_starts", "start_to_reserved", "pending_holes"],
    "vecdb::base::header::inner::HeaderInner": ["vec_version", "computed_version", "stamp"],
    "vecdb::variants::compressed::inner::page::Page": ["start", "bytes"],
    "vecdb::variants::compressed::inner::pages::Pages": ["vec"],
}


FIELDS_USED_BY = {
    "C05": ["rawdb::layout::Layout"], "C10": ["rawdb::layout::Layout"], "C12": ["rawdb::layout::Layout"],
    "C09": ["vecdb::variants::compressed::inner::page::Page", "vecdb::variants::compressed::inner::pages::Pages"],
    "C20": ["vecdb::variants::compressed::inner::page::Page", "vecdb::variants::compressed::inner::pages::Pages"],
    "C14": ["vecdb::base::header::inner::HeaderInner"], "C19": ["vecdb::base::header::inner::HeaderInner"],
}


def cursor_fields(P):
    """(name of the byte-slice field, name of the position field) of ChangeCursor, found by TYPE so that a rename of
    these two private fields does not disturb the rules that look at them"""
    a = P.adts.get("vecdb::base::change::cursor::ChangeCursor")
    if a is None:
        raise AnchorMissing("type vecdb::base::change::cursor::ChangeCursor not found")
    fs = a["variants"][0]["fields"]
    by = [f["name"] for f in fs if "[u8]" in f["ty"]]
    ps = [f["name"] for f in fs if f["ty"] == "usize"]
    if len(by) != 1 or len(ps) != 1:
        raise AnchorMissing("ChangeCursor: expected one &[u8] field and one usize field, found %s / %s" % (by, ps))
    return by[0], ps[0]


def db_lock_fields(P):
    """(name of the field holding the locked data File, name of the field holding Regions) of DatabaseInner, by type"""
    a = P.adts.get("rawdb::DatabaseInner")
    if a is None:
        raise AnchorMissing("ADT rawdb::DatabaseInner not found")
    fs = a["variants"][0]["fields"]
    fl = [f["name"] for f in fs if "std::fs::File" in f["ty"]]
    rg = [f["name"] for f in fs if "rawdb::regions::Regions" in f["ty"] or "crate::regions::Regions" in f["ty"]]
    if len(fl) != 1 or len(rg) != 1:
        raise AnchorMissing("DatabaseInner: expected one File field and one Regions field, found %s / %s" % (fl, rg))
    return fl[0], rg[0]


def require_fields(P, pid=None):
    for adt, fields in NAMED_FIELDS.items():
        if pid is not None and adt not in FIELDS_USED_BY.get(pid, []):
            continue
        a = P.adts.get(adt)
        if a is None:
            if adt.startswith("vecdb::variants::compressed") and not any(b.startswith("vecdb::variants::compressed") for b in P.bodies):
                continue    # feature configuration without compressed variants
            raise AnchorMissing("type %s named by the rule tables not found" % adt)
        have = {f["name"] for f in a["variants"][0]["fields"]}
        miss = [f for f in fields if f not in have]
        if miss:
            raise AnchorMissing("field(s) %s of %s named by the rule tables no longer exist (renamed?): update "
                                "props/anchors.py NAMED_FIELDS and the rules that use them" % (miss, adt))


def check(ctx, chk, keys):
    O, P, L = ctx.O, ctx.P, ctx.L
    for k in keys:
        bid, kind, arg, what = T[k]
        if bid not in P.bodies:
            if k in OPTIONAL:
                # a convenience helper that was inlined into its callers: nothing can rely on it any more (rules
                # that match its name find no site and fall back on their own floors)
                chk.oblige("H %s: helper absent (inlined into its callers) - nothing relies on it" % bid.split("::")[-1], True)
                continue
            raise AnchorMissing("helper %s not found" % bid)
        body = P.bodies[bid]
        if kind == "must_reach":
            ok = O.must_reach(bid, M(arg))
        elif kind == "reach":
            import re
            rx = re.compile(arg)
            ok = any(rx.fullmatch(n) for n in O.reach(bid))
        elif kind == "locks":
            ok = any(item[0] == "L" and item[1] == arg for item in L.ACQ.get(bid, {}))
        elif kind == "mut_field":
            ok = mut_field(body, arg) or any(mut_field(P.bodies[c], arg) for c in P.children.get(bid, []))
        elif kind == "not_mut_field":
            ok = not (mut_field(body, arg) or any(mut_field(P.bodies[c], arg) for c in P.children.get(bid, [])))
        elif kind == "precedes":
            a, b = M(arg[0]), M(arg[1])
            ok = bool(O.sites(body, a)) and bool(O.sites(body, b)) and not O.precedes(body, a, b)
        elif kind == "const_arg":
            pat, idx, val = arg
            sites = O.sites(body, M(pat))
            ok = bool(sites) and all(O.const_of(body, body.blocks[s]["term"]["args"][idx]) == val for s in sites)
        else:
            raise AnchorMissing("unknown anchor kind " + kind)
        chk.oblige("H %s: %s" % (bid.split("::")[-2] + "::" + bid.split("::")[-1], what), ok, key="H|%s|%s" % (k, kind),
                   msg="a helper that other rules rely on no longer performs its effect: " + what)
