"""C11 — no interleaving of library calls can deadlock (engine A, DESIGN §3.A / §4 C11)."""
import json
import os

from common import AnchorMissing
import locks as locks_mod

EXPLANATION = (
    "Lock-order analysis over the whole program: every lock acquisition site of rawdb and vecdb is classified by "
    "the payload type of its lock; a lock is held wherever a live local's type contains a guard (drop-elaborated "
    "MIR liveness); per-body summaries of acquired classes and of locks held while invoking callable parameters "
    "are propagated to a fixpoint over the call graph (trait calls by class-hierarchy analysis, closures bound "
    "through parameters and captures); every (held -> requested) edge is checked against the reference order "
    "parsed from the doc comment on rawdb::DatabaseInner: an edge is a violation iff it goes against that order "
    "and lies on a cycle of the class graph (writer-preferring RwLocks: every such cycle can block), or is a "
    "same-class nesting on a class that has a writer site. Quantifies over all schedules because it enumerates "
    "program points, not executions.")


def run(ctx, chk):
    L, P = ctx.L, ctx.P
    T = L.T
    if T.unknown:
        raise AnchorMissing("lock payload type(s) not in the class table: %s" % sorted(T.unknown))
    # floors on primitive acquisition sites
    counts = {c: len(s) for c, s in L.prim_sites.items()}
    for cls, floor in T.floors.items():
        n = counts.get(cls, 0) + (1 if cls == "EXIT" else 0)  # EXIT:R via raw lock in ExitGuard::new
        if n < floor:
            raise AnchorMissing("lock class %s: %d acquisition sites found, floor %d" % (cls, n, floor))
    # raw lock use only in the tabled bodies
    for fn, path in L.raw_sites:
        if fn not in T.raw_bodies:
            chk.violate("raw-lock|%s" % fn, "raw lock operation outside the tabled guard-like type",
                        {"fn": fn, "op": path})
    chk.oblige("raw lock operations confined to %s [%d sites]" % (sorted(T.raw_bodies), len(L.raw_sites)),
               all(fn in T.raw_bodies for fn, _ in L.raw_sites), key="raw-lock|confined")
    exempt = {k: v for k, v in json.load(open(os.path.join(locks_mod.RULES, "lock_exempt.json"))).items()
              if not k.startswith("_")}
    groups, info = L.verdict(exempt)
    bad_pairs = set()
    for g in groups:
        for p in g["pairs"]:
            bad_pairs.add(p)
    # one obligation per distinct class-level edge
    for (hc, hm, rc, rm), wits in sorted(L.edges.items()):
        pair = "%s:%s->%s:%s" % (hc, hm, rc, rm)
        ok = pair not in bad_pairs
        chk.obligations.append(("edge %s (%d site(s)) is not an inverting edge on a cycle / blocking self-nesting"
                                % (pair, len(wits)), ok, None))
    for g in groups:
        w = g["witness"]
        chk.violate(g["key"], "potential deadlock: %s while holding %s (%s)" % (
            ", ".join(sorted({p.split("->")[1] for p in g["pairs"]})),
            ", ".join(sorted({p.split("->")[0] for p in g["pairs"]})), "/".join(g["kinds"])),
            {"construct": g["key"], "lock_pairs": g["pairs"], "cycles": g["cycles"], "holders": g["holders"][:12],
             "example": w})
    # drop order of guard-carrying structs with 'static guards
    n_structs = 0
    for path, adt in sorted(P.adts.items()):
        if len(adt["variants"]) != 1:
            continue
        fs = adt["variants"][0]["fields"]
        gidx = [i for i, f in enumerate(fs) if any(not g[2] for g in f["guards"]) and "'static" in f["ty"]]
        if not gidx:
            continue
        n_structs += 1
        oidx = [i for i, f in enumerate(fs) if i not in gidx and (f["owners"] or "Arc<" in f["ty"]
                                                                    or "rawdb::Database" in f["ty"]
                                                                    or "rawdb::region::Region" in f["ty"])]
        ok = not oidx or max(gidx) < min(oidx)
        chk.oblige("drop-order %s: 'static guard field(s) %s declared before owner field(s) %s" % (
            path, [fs[i]["name"] for i in gidx], [fs[i]["name"] for i in oidx]), ok,
            key="drop-order|%s" % path,
            msg="a lifetime-extended guard must be dropped before the value that owns its lock (field order)")
    if n_structs < 1:
        raise AnchorMissing("no struct with a 'static guard found (rawdb::reader::Reader expected)")
    chk.cov.update({
        "lock_classes": sorted(counts),
        "acquisition_sites": counts,
        "writer_sites": info["writer_sites"],
        "reference_order": info["order"],
        "documented_order_parsed": info["doc_names"],
        "class_edges": len(L.edges),
        "edge_witnesses": sum(len(v) for v in L.edges.values()),
        "cycles_examined": info["examined_cycles"],
        "summary_rounds": L.rounds,
        "bodies_with_guards": sum(1 for v in L.owned.values() if v),
        "exemptions": [{"key": k, "reason": r} for k, r in info["exempted"]],
    })
    n = 0
    for k, wits in sorted(L.edges.items()):
        if n >= 6:
            break
        if k[0] in ("LAYOUT", "PAGES", "MMAP") and n < 6:
            w = wits[0]
            chk.sample({"edge": "%s:%s -> %s:%s" % k, "holder": w["fn"], "held_by": w["held_by"],
                        "call_chain": w["chain"][:8], "site": w["span"]})
            n += 1
    chk.assumptions += [
        "parking_lot RwLocks are writer-preferring: a read request blocks behind a queued writer (as the property states)",
        "user closures / user value types take no library locks except through the library values they are handed",
        "lock instances are abstracted to classes (payload type); same-class nestings are reported, not assumed safe",
        "<Database as Drop>::drop at implicit drops is not modelled (rules/externals.json: drop_glue_exempt); explicit sync_bg_tasks() is",
        "keeping a Reader alive across another call on the same thread (documented misuse) is excluded at the API boundary",
    ]
