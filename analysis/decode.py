"""Engine D — decoders neither panic nor allocate beyond their input (DESIGN.md §3.D).

A small abstract interpreter over MIR: expressions over parameters / fields / slice lengths are
normalised to trees; `a <= b` facts are established on branch edges (comparisons), by the Ok
edge of calls to workspace functions whose own Ok exits ensure such facts (check_remaining), and
by checked arithmetic; every potential panic site (range / element indexing, overflow asserts,
unwrap/expect, division) and every allocation with a non-constant size must be discharged by the
facts that hold on *all* paths reaching it."""
import re
from collections import defaultdict

from program import op_place, op_local, forward
from order import names

MAXI = (1 << 63) - 1

PANIC_CALLS = re.compile(
    r"core::(option::Option|result::Result)::<.*>::(unwrap|expect|unwrap_err|expect_err)$|"
    r"core::slice::<impl \[T\]>::(copy_from_slice|clone_from_slice|split_at|split_at_mut|chunks_exact|chunks|windows|swap|"
    r"first_chunk|rotate_left|rotate_right)$|"
    r"core::panicking::\w+$|core::slice::index::\w+fail\w*$|core::str::\w+::.*(unwrap)$|"
    r"alloc::vec::Vec::<T, A>::(remove|swap_remove|insert|split_off|drain|truncate_unchecked)$|"
    r"alloc::string::String::(from_utf8_unchecked)$")
SPLIT_AT = re.compile(r"core::slice::<impl \[T\]>::split_at(_mut)?$")
CHUNKS_EXACT = re.compile(r"core::slice::<impl \[T\]>::chunks_exact(_mut)?$")
# iterator adaptors through which a ChunksExact item keeps its width (type-level whitelist)
ITER_ADAPTORS = {"Zip", "Enumerate", "Rev", "Iter", "IterMut", "ChunksExact", "ChunksExactMut", "Take", "Skip", "StepBy",
                 "Peekable", "Fuse"}
INDEX_CALL = re.compile(r"core::ops::index::Index(Mut)?::index(_mut)?$")
ALLOC_CALLS = re.compile(
    r"alloc::vec::Vec::<T>::with_capacity$|alloc::vec::Vec::<T, A>::(with_capacity_in|reserve|reserve_exact|resize|"
    r"resize_with)$|alloc::vec::from_elem$|alloc::string::String::with_capacity$|"
    r"alloc::vec::Vec::<T, A>::(try_reserve|try_reserve_exact)$|alloc::raw_vec::.*")
LEN_CALLS = ("core::slice::<impl [T]>::len", "alloc::vec::Vec::<T, A>::len", "core::str::<impl str>::len",
             "alloc::string::String::len")
CHECKED = {"checked_add": "add", "checked_mul": "mul", "checked_sub": "sub"}


def c(n):
    return ("c", int(n))


class Decode:
    def __init__(self, P):
        self.P = P
        self.ENS = {}
        self._ens_busy = set()

    # ------------------------------------------------------------------ expressions
    def single_def(self, F, l):
        ds = F.defs().get(l, [])
        if len(ds) == 1 and not (1 <= l <= F.arg_count):
            return ds[0]
        return None

    def root_place(self, F, place, depth=0):
        """canonical (base, path): base = parameter index or ('l', n); path = tuple of field names."""
        l = place["l"]
        path = ()
        for e in place["p"]:
            if not isinstance(e, list):
                continue
            if e[0] == "f":
                path += (e[2],)
            elif e[0] == "ci":
                path += ("#%s%s" % ("-" if e[2] else "", e[1]),)
            elif e[0] == "i":
                path += ("#[%s]" % self.show(self.expr(F, {"c": {"l": e[1], "p": []}}, depth + 1)),)
            elif e[0] in ("sub", "d"):
                path += ("#" + str(e[1:]),)
        if 1 <= l <= F.arg_count:
            return (l, path)
        d = self.single_def(F, l)
        if d is not None and depth < 12 and d[0] == "assign":
            rv = d[3]
            if rv["k"] in ("use", "cast") and rv["ops"] and op_place(rv["ops"][0]) is not None:
                b, p0 = self.root_place(F, op_place(rv["ops"][0]), depth + 1)
                return (b, p0 + path)
            if rv["k"] in ("ref", "rawptr"):
                b, p0 = self.root_place(F, rv["place"], depth + 1)
                return (b, p0 + path)
        if d is not None and depth < 12 and d[0] == "call":
            t = d[2]
            if any(n.endswith("::deref") or n.endswith("::deref_mut") or n.endswith("::as_ref") or n.endswith("::borrow")
                   or n.endswith("::as_slice") for n in names(t)) and t["args"] and op_place(t["args"][0]):
                b, p0 = self.root_place(F, op_place(t["args"][0]), depth + 1)
                return (b, p0 + path)
        return (("l", l), path)

    def expr(self, F, op, depth=0):
        k = op.get("k")
        if k is not None:
            v = k.get("v")
            if v is not None and re.fullmatch(r"\d+", str(v)):
                return c(v)
            return ("k", k.get("name") or k.get("ty") or "?")
        p = op_place(op)
        if depth > 16:
            return ("l", p["l"])
        l = p["l"]
        proj = p["p"]
        # (_t.0) of an *WithOverflow tuple
        if len(proj) == 1 and isinstance(proj[0], list) and proj[0][0] == "f" and proj[0][1] == 0:
            d = self.single_def(F, l)
            if d and d[0] == "assign" and d[3]["k"] == "bin" and d[3]["op"].endswith("WithOverflow"):
                return self._arith(d[3]["op"][:3].lower(), self.expr(F, d[3]["ops"][0], depth + 1),
                                   self.expr(F, d[3]["ops"][1], depth + 1))
        # ((_b as Continue).0) / ((_o as Some).0) of checked arithmetic
        if len(proj) == 2 and isinstance(proj[0], list) and proj[0][0] == "d" and proj[0][1] in ("Continue", "Some", "Ok"):
            e = self._checked_payload(F, l, depth)
            if e is not None:
                return e
        if proj:
            base, path = self.root_place(F, p)
            if isinstance(base, int):
                return ("f", base, path)
            return ("f", base, path)
        if 1 <= l <= F.arg_count:
            return ("l", l)
        d = self.single_def(F, l)
        if d is None:
            return ("l", l)
        if d[0] == "assign":
            rv = d[3]
            kk = rv["k"]
            if kk == "use" and rv["ops"]:
                return self.expr(F, rv["ops"][0], depth + 1)
            if kk == "cast" and rv["ops"] and ("Int" in rv.get("ck", "") or "Transmute" not in rv.get("ck", "")):
                if "IntToInt" in rv.get("ck", ""):
                    return self.expr(F, rv["ops"][0], depth + 1)
                return ("l", l)
            if kk == "bin" and rv["op"] in ("Add", "Sub", "Mul", "AddUnchecked", "SubUnchecked", "MulUnchecked"):
                return self._arith(rv["op"][:3].lower(), self.expr(F, rv["ops"][0], depth + 1),
                                   self.expr(F, rv["ops"][1], depth + 1))
            if kk == "un" and rv.get("op") == "PtrMetadata" and rv["ops"] and op_place(rv["ops"][0]):
                return ("len", self.root_place(F, op_place(rv["ops"][0])))
            return ("l", l)
        if d[0] == "call":
            t = d[2]
            nm = names(t)
            if any(n in LEN_CALLS for n in nm) and t["args"] and op_place(t["args"][0]):
                return ("len", self.root_place(F, op_place(t["args"][0])))
            if t["callee"].get("size_of") is not None:
                return c(t["callee"]["size_of"])
            return ("l", l)
        return ("l", l)

    def _checked_payload(self, F, l, depth):
        """expr of the success payload of `a.checked_op(b)` reached through ok_or / Try::branch / match."""
        seen = 0
        cur = l
        while seen < 6:
            seen += 1
            d = self.single_def(F, cur)
            if d is None:
                return None
            if d[0] == "call":
                t = d[2]
                nm = names(t)
                m = None
                for n in nm:
                    mm = re.search(r"::(checked_add|checked_mul|checked_sub)$", n)
                    if mm:
                        m = mm.group(1)
                if m:
                    return self._arith(CHECKED[m], self.expr(F, t["args"][0], depth + 1),
                                       self.expr(F, t["args"][1], depth + 1))
                if any(("Try>::branch" in n) or n.endswith("::ok_or") or n.endswith("::ok_or_else") for n in nm):
                    al = op_local(t["args"][0])
                    if al is None:
                        return None
                    cur = al
                    continue
                return None
            if d[0] == "assign" and d[3]["k"] == "use" and d[3]["ops"] and op_place(d[3]["ops"][0]) \
                    and not op_place(d[3]["ops"][0])["p"]:
                cur = op_place(d[3]["ops"][0])["l"]
                continue
            return None
        return None

    def _arith(self, op, a, b):
        if a[0] == "c" and b[0] == "c":
            if op == "add":
                return c(a[1] + b[1])
            if op == "mul":
                return c(a[1] * b[1])
            if op == "sub" and a[1] >= b[1]:
                return c(a[1] - b[1])
        if op in ("add", "mul"):
            a, b = sorted((a, b), key=repr)
        return (op, a, b)

    # ------------------------------------------------------------------ facts
    @staticmethod
    def mentions(e, root):
        if e == root:
            return True
        if isinstance(e, tuple):
            return any(Decode.mentions(x, root) for x in e if isinstance(x, tuple))
        return False

    def ub(self, facts, e, depth=0):
        """constant upper bound of e under facts, or None."""
        if e[0] == "c":
            return e[1]
        best = None
        for a, b in facts:
            if a == e:
                u = self.ub(facts, b, depth + 1) if depth < 3 else (b[1] if b[0] == "c" else None)
                if u is not None and (best is None or u < best):
                    best = u
        if best is not None:
            return best
        if e[0] == "len":
            return MAXI
        if e[0] == "add":
            x, y = self.ub(facts, e[1], depth + 1), self.ub(facts, e[2], depth + 1)
            if x is not None and y is not None:
                return x + y
        if e[0] == "mul":
            x, y = self.ub(facts, e[1], depth + 1), self.ub(facts, e[2], depth + 1)
            if x is not None and y is not None:
                return x * y
        if e[0] == "sub":
            return self.ub(facts, e[1], depth + 1)
        return None

    def lb(self, facts, e):
        """constant lower bound of e."""
        if e[0] == "c":
            return e[1]
        best = 0
        for a, b in facts:
            if b == e and a[0] == "c":
                best = max(best, a[1])
        return best

    def entails(self, facts, a, b, depth=0):
        if a == b:
            return True
        if a[0] == "c" and b[0] == "c":
            return a[1] <= b[1]
        if (a, b) in facts:
            return True
        if a[0] == "c":
            if self.lb(facts, b) >= a[1]:
                return True
        if b[0] == "c":
            u = self.ub(facts, a)
            if u is not None and u <= b[1]:
                return True
        if depth < 2:
            for x, y in facts:
                if x == a and y != b and self.entails(facts, y, b, depth + 1):
                    return True
        # a <= b when b's constant lower bound covers a's upper bound
        u = self.ub(facts, a) if a[0] != "len" else None
        if u is not None and self.lb(facts, b) >= u:
            return True
        return False

    # ------------------------------------------------------------------ ensures summaries
    def ensures(self, gid):
        """facts over parameters that hold at every Ok exit of workspace body gid."""
        if gid in self.ENS:
            return self.ENS[gid]
        if gid in self._ens_busy or gid not in self.P.bodies:
            return frozenset()
        self._ens_busy.add(gid)
        G = self.P.bodies[gid]
        res = self.analyze(G, want_sites=False)
        self._ens_busy.discard(gid)
        okf = res["ok_facts"]
        out = set()
        for a, b in (okf or ()):
            if self._param_only(G, a) and self._param_only(G, b):
                out.add((a, b))
        self.ENS[gid] = frozenset(out)
        return self.ENS[gid]

    def _param_only(self, G, e):
        if e[0] == "c":
            return True
        if e[0] == "l":
            return isinstance(e[1], int) and 1 <= e[1] <= G.arg_count
        if e[0] == "f":
            return isinstance(e[1], int) and 1 <= e[1] <= G.arg_count
        if e[0] == "len":
            return isinstance(e[1][0], int) and 1 <= e[1][0] <= G.arg_count
        if e[0] in ("add", "mul", "sub"):
            return self._param_only(G, e[1]) and self._param_only(G, e[2])
        return False

    def _subst(self, F, t, e):
        """translate a callee expression into the caller's terms at call terminator t."""
        if e[0] == "c":
            return e
        if e[0] == "l":
            return self.expr(F, t["args"][e[1] - 1])
        if e[0] in ("f", "len"):
            k, path = (e[1], e[2]) if e[0] == "f" else e[1]
            a = t["args"][k - 1]
            pl = op_place(a)
            if pl is None:
                return ("?",)
            base, p0 = self.root_place(F, pl)
            if e[0] == "f":
                return ("f", base, p0 + path)
            return ("len", (base, p0 + path))
        if e[0] in ("add", "mul", "sub"):
            return self._arith(e[0], self._subst(F, t, e[1]), self._subst(F, t, e[2]))
        return ("?",)

    # ------------------------------------------------------------------ analysis of one body
    def analyze(self, F, want_sites=True, keep_state=False):
        """-> {sites: [...], ok_facts: frozenset|None}"""
        in_facts = {}

        def cond_facts(b):
            """(facts on target '0' edge, facts on otherwise/true edge) for a bool switch, else None."""
            t = F.blocks[b]["term"]
            l = op_local(t["op"])
            if l is None:
                return None
            d = self.single_def(F, l)
            neg = False
            hops = 0
            while d and hops < 6 and ((d[0] == "assign" and d[3]["k"] in ("un", "use")) or self._is_hint_call(d)):
                hops += 1
                if d[0] == "call":
                    nl = op_local(d[2]["args"][0])
                    if nl is None:
                        return None
                    d = self.single_def(F, nl)
                    continue
                if d[3]["k"] == "un" and d[3].get("op") == "Not":
                    neg = not neg
                elif d[3]["k"] == "un":
                    break
                nl = op_local(d[3]["ops"][0])
                if nl is None:
                    return None
                d = self.single_def(F, nl)
            if not d or d[0] != "assign" or d[3]["k"] != "bin":
                return None
            op = d[3]["op"]
            if op not in ("Lt", "Le", "Gt", "Ge", "Eq", "Ne"):
                return None
            x = self.expr(F, d[3]["ops"][0])
            y = self.expr(F, d[3]["ops"][1])
            if op in ("Gt", "Ge"):
                x, y = y, x
                op = {"Gt": "Lt", "Ge": "Le"}[op]

            def lt(a, bb):   # a < bb
                if bb[0] == "c":
                    return {(a, c(bb[1] - 1))} if bb[1] > 0 else {(a, c(0))}
                if a[0] == "c":
                    return {(c(a[1] + 1), bb)}
                return {(a, bb)}

            def le(a, bb):
                return {(a, bb)}
            if op == "Lt":
                tru, fal = lt(x, y), le(y, x)
            elif op == "Le":
                tru, fal = le(x, y), lt(y, x)
            elif op == "Eq":
                tru, fal = {(x, y), (y, x)}, set()
            else:
                tru, fal = set(), {(x, y), (y, x)}
            if neg:
                tru, fal = fal, tru
            return fal, tru

        def kill(facts, root):
            return {f for f in facts if not (self.mentions(f[0], root) or self.mentions(f[1], root))}

        multi = {l for l, ds in F.defs().items() if len(ds) > 1}

        def transfer(b, state):
            facts, pend = state
            facts = set(facts)
            pend = dict(pend)
            blk = F.blocks[b]
            for st in blk["stmts"]:
                if st[0] == "assign":
                    d = st[1]
                    if not d["p"]:
                        if d["l"] in multi:
                            facts = kill(facts, ("l", d["l"]))
                        # moves keep pending ensures under the new name
                        rv = st[2]
                        if rv["k"] == "use" and rv["ops"]:
                            ol = op_local(rv["ops"][0])
                            if ol in pend and op_place(rv["ops"][0]) and not op_place(rv["ops"][0])["p"]:
                                pend[d["l"]] = pend[ol]
                    else:
                        base, path = self.root_place(F, d)
                        facts = kill(facts, ("f", base, path))
                        facts = {f for f in facts if not (self._mentions_len(f, base, path))}
            t = blk["term"]
            if t["k"] == "call":
                nm = names(t)
                dl = t["dest"]["l"] if not t["dest"]["p"] else None
                if dl is not None and dl in multi:
                    facts = kill(facts, ("l", dl))
                # &mut arguments: the callee may change fields of that root
                for a in t["args"]:
                    pl = op_place(a)
                    if pl is None:
                        continue
                    L = F.locals[pl["l"]]
                    if L.get("mutref") or "&mut" in L["ty"]:
                        base, path = self.root_place(F, pl)
                        facts = {f for f in facts if not (self._mentions_root(f[0], base) or self._mentions_root(f[1], base))}
                if dl is not None and dl not in multi and len(t["args"]) == 2 and op_place(t["args"][0]) is not None \
                        and any(SPLIT_AT.search(n) for n in nm):
                    # (head, tail) = s.split_at(mid): len(head) == mid; len(tail) == len(s) - mid >= lb(len s) - ub(mid)
                    mid = self.expr(F, t["args"][1])
                    src = ("len", self.root_place(F, op_place(t["args"][0])))
                    head = ("len", (("l", dl), ("0",)))
                    tail = ("len", (("l", dl), ("1",)))
                    facts |= {(head, mid), (mid, head), (head, src), (tail, src)}
                    um = self.ub(facts, mid)
                    lo = self.lb(facts, src)
                    if um is not None and lo >= um:
                        facts.add((c(lo - um), tail))
                    us = self.ub(facts, src)
                    if us is not None and us < MAXI:
                        facts.add((tail, c(us - self.lb(facts, mid))))
                if any("Try>::branch" in n for n in nm) and t["args"]:
                    al = op_local(t["args"][0])
                    if al in pend and dl is not None:
                        pend[dl] = pend.pop(al)
                else:
                    kind, tg = self.P.resolve(t["callee"])
                    if kind == "ws" and len(tg) == 1 and dl is not None:
                        ens = self.ensures(tg[0])
                        if ens:
                            tr = set()
                            for a, bb in ens:
                                ta, tb = self._subst(F, t, a), self._subst(F, t, bb)
                                if ("?",) not in (ta, tb) and not self._has_unknown(ta) and not self._has_unknown(tb):
                                    tr.add((ta, tb))
                            if tr:
                                if F.locals[dl]["ty"].startswith("core::result::Result<"):
                                    pend[dl] = frozenset(tr)
                                else:
                                    facts |= tr
            elif t["k"] == "switch":
                out = {}
                cf = cond_facts(b)
                if cf is not None:
                    fal, tru = cf
                    for v, tb in t["targets"]:
                        add = fal if v == "0" else tru
                        out[tb] = (frozenset(facts | add), frozenset(pend.items()))
                    o = (frozenset(facts | (tru if {v for v, _ in t["targets"]} == {"0"} else set())),
                         frozenset(pend.items()))
                    if t["otherwise"] in out:
                        a = out[t["otherwise"]]
                        o = (a[0] & o[0], a[1] & o[1])
                    out[t["otherwise"]] = o
                    return out
                dl = op_local(t["op"])
                # `match n { 0 => .., 7 => .., _ => .. }` on an integer: the listed edges pin the value
                if dl is not None and re.fullmatch(r"u(8|16|32|64|128|size)", F.locals[dl]["ty"]):
                    x = self.expr(F, t["op"])
                    if x != ("?",):
                        for v, tb in t["targets"]:
                            try:
                                cv = c(int(v))
                            except ValueError:
                                continue
                            nf = (frozenset(facts | {(x, cv), (cv, x)}), frozenset(pend.items()))
                            out[tb] = nf if tb not in out else (out[tb][0] & nf[0], out[tb][1] & nf[1])
                        listed = sorted(int(v) for v, _ in t["targets"] if str(v).isdigit())
                        o = set(facts)
                        if listed and listed[0] == 0 and listed == list(range(len(listed))):
                            o.add((c(len(listed)), x))      # 0..k-1 excluded: x >= k
                        o = (frozenset(o), frozenset(pend.items()))
                        if t["otherwise"] in out:
                            a = out[t["otherwise"]]
                            o = (a[0] & o[0], a[1] & o[1])
                        out[t["otherwise"]] = o
                        return out
                base = None
                for d in F.defs().get(dl, []) if dl is not None else []:
                    if d[0] == "assign" and d[3]["k"] == "discr" and not d[3]["place"]["p"]:
                        base = d[3]["place"]["l"]
                if base in pend:
                    ens = pend.pop(base)
                    rest = frozenset(pend.items())
                    for v, tb in t["targets"]:
                        out[tb] = (frozenset(facts | ens), rest) if v == "0" else (frozenset(facts), rest)
                    listed = {v for v, _ in t["targets"]}
                    o = (frozenset(facts), rest) if listed != {"1"} else (frozenset(facts | ens), rest)
                    if t["otherwise"] in out:
                        a = out[t["otherwise"]]
                        o = (a[0] & o[0], a[1] & o[1])
                    out[t["otherwise"]] = o
                    return out
            return (frozenset(facts), frozenset(pend.items()))

        def join(a, b):
            return (a[0] & b[0], a[1] & b[1])

        # must-analysis: optimistic start is not available with `forward` (first visit = first value), which is
        # what we want for intersection joins when blocks are first reached along one path then narrowed.
        state_in = forward(F, (frozenset(), frozenset()), transfer, join)
        # facts at Ok exits
        okf = None
        ret_is_result = F.locals[0]["ty"].startswith("core::result::Result<")
        for b in F.reachable():
            if b not in state_in:
                continue
            blk = F.blocks[b]
            is_ok_exit = False
            for st in blk["stmts"]:
                if st[0] == "assign" and st[1]["l"] == 0 and not st[1]["p"]:
                    rv = st[2]
                    if ret_is_result and rv["k"] == "agg" and rv.get("variant") == "Ok":
                        is_ok_exit = True
            if not ret_is_result and blk["term"]["k"] == "return":
                is_ok_exit = True
            if is_ok_exit:
                f = self._facts_at_term(F, b, state_in, transfer)
                okf = f if okf is None else (okf & f)
        if not want_sites:
            return {"sites": [], "ok_facts": okf, "state_in": state_in if keep_state else None}
        sites = []
        for b in F.reachable():
            if b not in state_in:
                continue
            t = F.blocks[b]["term"]
            facts = None
            if t["k"] == "assert":
                ak = t.get("akind", "")
                if ak in ("MisalignedPointerDereference", "NullPointerDereference"):
                    continue
                facts = self._facts_at_term(F, b, state_in, transfer)
                sites.append(self._assert_site(F, b, t, facts))
            elif t["k"] == "call":
                nm = names(t)
                if any(INDEX_CALL.search(n) for n in nm):
                    facts = self._facts_at_term(F, b, state_in, transfer)
                    sites.append(self._index_site(F, b, t, facts))
                elif any(PANIC_CALLS.search(n) for n in nm):
                    facts = self._facts_at_term(F, b, state_in, transfer)
                    sites.append(self._panic_call_site(F, b, t, facts))
                elif any(ALLOC_CALLS.search(n) for n in nm):
                    facts = self._facts_at_term(F, b, state_in, transfer)
                    sites.append(self._alloc_site(F, b, t, facts))
        return {"sites": sites, "ok_facts": okf}

    def facts_at(self, F, b):
        """`a <= b` facts holding just before the terminator of block b of body F."""
        key = ("facts", F.id)
        cache = self.__dict__.setdefault("_fcache", {})
        if key not in cache:
            res = self.analyze(F, want_sites=False, keep_state=True)
            cache[key] = res["state_in"]
        st = cache[key]
        if b not in st:
            return frozenset()
        return self._facts_at_term(F, b, st, None)

    def _facts_at_term(self, F, b, state_in, transfer):
        """facts holding just before the terminator of b (statements applied, terminator not)."""
        facts, pend = state_in[b]
        facts = set(facts)
        multi = {l for l, ds in F.defs().items() if len(ds) > 1}
        for st in F.blocks[b]["stmts"]:
            if st[0] == "assign":
                d = st[1]
                if not d["p"]:
                    if d["l"] in multi:
                        facts = {f for f in facts if not (self.mentions(f[0], ("l", d["l"])) or self.mentions(f[1], ("l", d["l"])))}
                else:
                    base, path = self.root_place(F, d)
                    facts = {f for f in facts if not (self.mentions(f[0], ("f", base, path)) or self.mentions(f[1], ("f", base, path))
                                                      or self._mentions_len(f, base, path))}
        return frozenset(facts)

    def _mentions_root(self, e, base):
        if not isinstance(e, tuple) or not e:
            return False
        if e[0] == "f" and e[1] == base:
            return True
        if e[0] == "len" and e[1][0] == base:
            return True
        return any(self._mentions_root(x, base) for x in e if isinstance(x, tuple))

    def _mentions_len(self, f, base, path):
        return self.mentions(f[0], ("len", (base, path))) or self.mentions(f[1], ("len", (base, path)))

    def _has_unknown(self, e):
        if e == ("?",):
            return True
        if isinstance(e, tuple):
            return any(self._has_unknown(x) for x in e if isinstance(x, tuple))
        return False

    # ------------------------------------------------------------------ site discharge
    def _site(self, F, b, t, kind, ok, why, operands):
        self._names = F.name_of
        return {"fn": F.id, "kind": kind, "span": t.get("span"), "ok": bool(ok), "why": why,
                "operands": [self.show(o) for o in operands]}

    def _assert_site(self, F, b, t, facts):
        ak = t.get("akind", "Other")
        ops = [self.expr(F, o) for o in t.get("aops", [])]
        if ak == "BoundsCheck" and len(ops) == 2:
            ln, idx = ops
            # index < len  <=  index + 1 <= len
            need = self._arith("add", idx, c(1))
            ok = self.entails(facts, need, ln)
            return self._site(F, b, t, "bounds-check", ok, "index+1 <= len entailed" if ok else "index not bounded by len",
                              ops)
        if ak.startswith("Overflow(") and len(ops) == 2:
            op = ak[9:-1].lower()
            if op in ("add", "mul"):
                e = self._arith(op, ops[0], ops[1])
                u = self.ub(facts, e)
                ok = u is not None and u <= (1 << 64) - 1
                return self._site(F, b, t, "overflow-" + op, ok, "upper bound %s" % u if ok else "operands unbounded", ops)
            if op == "sub":
                ok = self.entails(facts, ops[1], ops[0])
                return self._site(F, b, t, "overflow-sub", ok, "b <= a entailed" if ok else "b <= a not established", ops)
            return self._site(F, b, t, "overflow-" + op, False, "unsupported", ops)
        if ak in ("DivisionByZero", "RemainderByZero") and ops:
            ok = self.lb(facts, ops[0]) >= 1
            return self._site(F, b, t, "div-by-zero", ok, "divisor >= 1" if ok else "divisor may be zero", ops)
        return self._site(F, b, t, "assert-" + ak, False, "unrecognised assert", ops)

    def _range_of(self, F, op):
        """(lo, hi) expressions of a Range/RangeTo/RangeFrom aggregate operand (hi=None for RangeFrom)."""
        l = op_local(op)
        d = self.single_def(F, l) if l is not None else None
        if d and d[0] == "assign" and d[3]["k"] == "agg":
            adt = d[3].get("adt", "")
            ops = d[3]["ops"]
            if adt == "core::ops::range::Range" and len(ops) == 2:
                return self.expr(F, ops[0]), self.expr(F, ops[1]), "range"
            if adt == "core::ops::range::RangeTo" and len(ops) == 1:
                return c(0), self.expr(F, ops[0]), "range"
            if adt == "core::ops::range::RangeFrom" and len(ops) == 1:
                return self.expr(F, ops[0]), None, "range"
            if adt == "core::ops::range::RangeFull":
                return c(0), None, "full"
            if adt == "core::ops::range::RangeInclusive":
                return None, None, "unsupported"
        return None, None, "element"

    def _index_site(self, F, b, t, facts):
        coll = t["args"][0]
        pl = op_place(coll)
        root = self.root_place(F, pl) if pl is not None else None
        ln = ("len", root)
        lo, hi, kind = self._range_of(F, t["args"][1])
        cty = F.locals[pl["l"]]["ty"] if pl is not None else ""
        if "BTreeMap" in cty or "HashMap" in cty:
            return self._site(F, b, t, "map-index", False, "map indexing panics on a missing key", [])
        if kind == "full":
            return self._site(F, b, t, "range-index", True, "full range", [])
        if kind == "range":
            if hi is None:
                ok = self.entails(facts, lo, ln)
                return self._site(F, b, t, "range-index", ok, "start <= len" if ok else "start not bounded by len", [lo, ln])
            ok_hi = self.entails(facts, hi, ln)
            ok_lo = self.entails(facts, lo, hi) or (hi[0] == "add" and lo in hi[1:])
            ok = ok_hi and ok_lo
            why = "end <= len and start <= end entailed" if ok else (
                "end not bounded by the slice length" if not ok_hi else "start <= end not established")
            return self._site(F, b, t, "range-index", ok, why, [lo, hi, ln])
        if kind == "element":
            idx = self.expr(F, t["args"][1])
            ok = self.entails(facts, self._arith("add", idx, c(1)), ln)
            return self._site(F, b, t, "element-index", ok, "index < len entailed" if ok else "index not bounded", [idx, ln])
        return self._site(F, b, t, "index", False, "unsupported index form", [])

    def _panic_call_site(self, F, b, t, facts):
        nm = names(t)[0]
        fn = nm.split("::")[-1]
        if fn in ("unwrap", "expect") and t["args"]:
            # try_into().unwrap() on a slice of constant width equal to the array length
            l = op_local(t["args"][0])
            d = self.single_def(F, l) if l is not None else None
            if d and d[0] == "call" and any(n.endswith("::try_into") or n.endswith("TryFrom<&[T]>>::try_from")
                                            or n.endswith("::try_from") for n in names(d[2])):
                dty = F.locals[l]["ty"]
                m = re.search(r"Result<\[u8; (\d+)\]", dty) or re.search(r"Result<&?\[\w+; (\d+)\]", dty)
                src = d[2]["args"][0]
                w = self._slice_width(F, src)
                if m and w is not None and w[0] == "c" and w[1] == int(m.group(1)):
                    return self._site(F, b, t, "unwrap", True, "try_into on a slice of constant width %d" % w[1], [])
                return self._site(F, b, t, "unwrap", False, "try_into width not established", [])
            return self._site(F, b, t, "unwrap", False, "unwrap/expect on an unchecked value", [])
        if fn in ("chunks", "chunks_exact", "windows") and len(t["args"]) > 1:
            e = self.expr(F, t["args"][1])
            ok = self.lb(facts, e) >= 1
            return self._site(F, b, t, "chunks", ok, "chunk size >= 1" if ok else "chunk size may be zero", [e])
        if fn in ("split_at", "split_at_mut") and len(t["args"]) == 2 and op_place(t["args"][0]) is not None:
            mid = self.expr(F, t["args"][1])
            ln = ("len", self.root_place(F, op_place(t["args"][0])))
            ok = self.entails(facts, mid, ln)
            return self._site(F, b, t, "split_at", ok, "mid <= len entailed" if ok else "mid not bounded by the slice length",
                              [mid, ln])
        if fn == "copy_from_slice" and len(t["args"]) == 2:
            a = self._slice_width(F, t["args"][0])
            bb = self._slice_width(F, t["args"][1])
            ok = a is not None and a == bb
            return self._site(F, b, t, "copy_from_slice", ok, "equal widths" if ok else "widths not proven equal", [])
        return self._site(F, b, t, "panic-call:" + fn, False, "panicking library call", [])

    def _slice_width(self, F, op, depth=0):
        """expression for the length of a slice operand produced by range indexing / an array."""
        l = op_local(op)
        if l is None or depth > 8:
            return None
        ty = F.locals[l]["ty"]
        m = re.search(r"\[u8; (\d+)\]", ty)
        d = self.single_def(F, l)
        if d and d[0] == "assign" and d[3]["k"] in ("ref", "use", "cast", "rawptr"):
            inner = {"c": d[3]["place"]} if "place" in d[3] else d[3]["ops"][0]
            ip = op_place(inner)
            if ip is not None and ip["p"] and isinstance(ip["p"][0], list) and ip["p"][0][:2] == ["d", "Some"] \
                    and re.fullmatch(r"&(mut )?\[u8\]", ty):
                w = self._chunk_item_width(F, ip["l"])
                if w is not None:
                    return w
            if op_place(inner) is not None:
                il = op_place(inner)["l"]
                if il != l:
                    w = self._slice_width(F, {"c": {"l": il, "p": []}}, depth + 1)
                    if w is not None:
                        return w
        if d and d[0] == "call" and any(INDEX_CALL.search(n) for n in names(d[2])):
            lo, hi, kind = self._range_of(F, d[2]["args"][1])
            if kind == "range" and hi is not None:
                if hi[0] == "c" and lo[0] == "c":
                    return c(hi[1] - lo[1])
                if hi[0] == "add" and lo in hi[1:]:
                    return hi[2] if hi[1] == lo else hi[1]
                return ("sub", hi, lo)
        if m:
            return c(m.group(1))
        return None

    def _is_hint_call(self, d):
        """`rawdb::hints::likely(b)` / `unlikely(b)`: identity on bool (checked on the helper's own MIR: every
        assignment to its return place copies the parameter)."""
        if not d or d[0] != "call" or len(d[2]["args"]) != 1:
            return False
        kind, tg = self.P.resolve(d[2]["callee"])
        if kind != "ws" or len(tg) != 1 or not re.search(r"::hints::(likely|unlikely)$", tg[0]):
            return False
        ok = self.__dict__.setdefault("_hint_ok", {})
        if tg[0] not in ok:
            G = self.P.bodies[tg[0]]
            rets = []
            for blk in G.blocks:
                for st in blk["stmts"]:
                    if st[0] == "assign" and st[1]["l"] == 0:
                        rv = st[2]
                        rets.append(rv["k"] == "use" and rv["ops"] and op_local(rv["ops"][0]) == 1
                                    and not op_place(rv["ops"][0])["p"])
                if blk["term"]["k"] == "call" and blk["term"]["dest"]["l"] == 0:
                    rets.append(False)
            ok[tg[0]] = bool(rets) and all(rets) and G.arg_count == 1
        return ok[tg[0]]

    def raw_copy_sites(self, F):
        """every `ptr::copy_nonoverlapping(src, dst, count)` whose src is `as_ptr()` of a slice S: the bytes read
        must lie inside S. u8 slices: count <= len(S) entailed by the facts; typed slices: count == len(S) * size_of."""
        res = None
        out = []
        for b in F.reachable():
            t = F.blocks[b]["term"]
            if t["k"] != "call" or not any(re.search(r"core::(ptr|intrinsics)::copy(_nonoverlapping)?$", n) for n in names(t)):
                continue
            if len(t["args"]) != 3:
                continue
            cur = op_local(t["args"][0])
            src = None
            for _ in range(8):
                d = self.single_def(F, cur) if cur is not None else None
                if d is None:
                    break
                if d[0] == "assign" and d[3]["k"] in ("use", "cast") and d[3]["ops"]:
                    cur = op_local(d[3]["ops"][0])
                    continue
                if d[0] == "call" and any(n.endswith("::as_ptr") or n.endswith("::as_mut_ptr") for n in names(d[2])):
                    src = d[2]["args"][0]
                break
            if src is None or op_place(src) is None:
                out.append(self._site(F, b, t, "raw-copy", True, "source is not a slice's as_ptr (not an input-slice copy)", []))
                continue
            sty = F.locals[op_place(src)["l"]]["ty"]
            ln = ("len", self.root_place(F, op_place(src)))
            cnt = self.expr(F, t["args"][2])
            if res is None:
                res = self.analyze(F, want_sites=False, keep_state=True)
            st = res["state_in"]
            facts = self._facts_at_term(F, b, st, None) if b in st else frozenset()
            if re.search(r"\[u8\]|Vec<u8", sty):
                ok = self.entails(facts, cnt, ln)
                why = "count <= len(source) entailed" if ok else "bytes copied out of the input are not bounded by its length"
            else:
                ok = cnt[0] == "mul" and ln in cnt[1:]
                cl = op_local(t["args"][2])
                for _ in range(4):
                    dd = self.single_def(F, cl) if cl is not None else None
                    if dd and dd[0] == "assign" and dd[3]["k"] == "use" and dd[3]["ops"]:
                        cl = op_local(dd[3]["ops"][0])
                        continue
                    if dd and dd[0] == "call" and any(n.endswith("mem::size_of_val") for n in names(dd[2])) \
                            and op_place(dd[2]["args"][0]) is not None \
                            and ("len", self.root_place(F, op_place(dd[2]["args"][0]))) == ln:
                        ok = True
                    break
                why = "count = byte size of the source slice" if ok else "count is not len(source) * element size"
            out.append(self._site(F, b, t, "raw-copy", ok, why, [cnt, ln]))
        return out

    def _chunk_item_width(self, F, opt_local):
        """width of the `&[u8]` component of an item produced by `Iterator::next` on an iterator built (in this body,
        through whitelisted adaptors only) from `chunks_exact(_mut)(.., const)`: every such call in the body must use
        the same constant, no ChunksExact may come from a parameter or a non-core call, and the iterator's type must
        contain no other slice-yielding component."""
        d = self.single_def(F, opt_local)
        if not d or d[0] != "call" or not any(n.endswith("Iterator::next") for n in names(d[2])) or not d[2]["args"]:
            return None
        il = op_local(d[2]["args"][0])
        if il is None:
            return None
        ity = F.locals[il]["ty"]
        if "ChunksExact" not in ity or "[" in ity:
            return None
        if any(seg not in ITER_ADAPTORS for seg in re.findall(r"([A-Za-z_]\w*)<", ity)):
            return None
        if any("ChunksExact" in F.locals[i]["ty"] for i in range(1, F.arg_count + 1)):
            return None
        widths = set()
        for blk in F.blocks:
            t = blk["term"]
            if t["k"] != "call":
                continue
            nm = names(t)
            if any(CHUNKS_EXACT.search(n) for n in nm):
                e = self.expr(F, t["args"][1]) if len(t["args"]) > 1 else ("?",)
                widths.add(e if e[0] == "c" else None)
            elif not t["dest"]["p"] and "ChunksExact" in F.locals[t["dest"]["l"]]["ty"] \
                    and t["callee"].get("krate") not in ("core", "alloc", "std"):
                return None
        if len(widths) == 1 and None not in widths:
            return widths.pop()
        return None

    def _alloc_site(self, F, b, t, facts):
        nm = names(t)[0]
        fn = nm.split("::")[-1]
        szop = None
        if fn in ("with_capacity", "with_capacity_in"):
            szop = t["args"][0]
        elif fn in ("reserve", "reserve_exact", "resize", "resize_with", "try_reserve", "try_reserve_exact"):
            szop = t["args"][1]
        elif fn == "from_elem":
            szop = t["args"][1]
        if szop is None:
            return self._site(F, b, t, "alloc:" + fn, True, "no size operand", [])
        e = self.expr(F, szop)
        if e[0] == "c":
            return self._site(F, b, t, "alloc:" + fn, True, "constant size", [e])
        u = self.ub(facts, e)
        ok = u is not None and (u < MAXI or self._bounded_by_len(facts, e))
        if e[0] == "len":
            ok = True
        return self._site(F, b, t, "alloc:" + fn, ok, "size bounded (<= %s)" % u if ok else
                          "allocation size taken from the input without a bound", [e])

    def _bounded_by_len(self, facts, e):
        for a, b in facts:
            if a == e and b[0] == "len":
                return True
        return False

    def show(self, e):
        if not isinstance(e, tuple):
            return str(e)
        if e[0] == "c":
            return str(e[1])
        if e[0] == "l":
            nm = getattr(self, "_names", {}).get(e[1])
            return nm if nm else "_%s" % (e[1],)
        if e[0] == "f":
            return "%s.%s" % ("arg%s" % e[1] if isinstance(e[1], int) else "_%s" % (e[1][1],), ".".join(e[2]))
        if e[0] == "len":
            b, p = e[1]
            return "len(%s%s)" % ("arg%s" % b if isinstance(b, int) else "_%s" % (b[1],), "".join("." + x for x in p))
        if e[0] in ("add", "mul", "sub"):
            return "(%s %s %s)" % (self.show(e[1]), {"add": "+", "mul": "*", "sub": "-"}[e[0]], self.show(e[2]))
        return str(e)
