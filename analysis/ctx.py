"""Analysis context: facts -> Program -> engines (built once per check run)."""
import time

import facts
import locks
import order
import program


class Ctx:
    def __init__(self, config="all", repo=None, force=False):
        t0 = time.time()
        self.config = config
        self.facts_dir, self.facts_info = facts.ensure_facts(config, repo=repo, force=force)
        self.crates = facts.load(self.facts_dir)
        self.P = program.Program(self.crates)
        self.L = locks.LockEngine(self.P).solve()
        self.O = order.Order(self.P, self.L)
        self.build_s = round(time.time() - t0, 1)

    def stats(self):
        P = self.P
        ncalls = sum(len(b.calls()) for b in P.bodies.values())
        return {
            "config": self.config,
            "features": facts.CONFIGS.get(self.config, []),
            "crates": [c["crate"] for c in self.crates],
            "bodies": len(P.bodies),
            "call_sites": ncalls,
            "facts_cached": self.facts_info["cached"],
            "extract_s": self.facts_info["extract_s"],
            "facts_hash": self.facts_info["hash"][:16],
            "cfg": "linux/unix only; macOS/FreeBSD variants of HolePunch::punch are not compiled",
        }
