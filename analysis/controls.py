"""Positive controls (fixtures crate) — filled in later; see fixtures/."""


def run(pid, chk):
    return
