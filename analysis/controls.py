"""Positive / negative controls: the same driver and engines analyse /verif/fixtures, a crate of
deliberately wrong (`bad_*`) and right (`good_*`) code.  A template that does not fire on its `bad_`
control, or fires on the `good_` twin, marks the check as broken (exit 2) — this is what keeps
zero-expected-count rules honest (DESIGN.md §2.4)."""
import facts
import program
import locks
import order
import atom
import decode
from order import M

ENGINES = {
    "C05": ("order",), "C09": ("order", "locks"), "C10": ("order", "locks"), "C11": ("locks",),
    "C12": ("order", "locks"), "C13": ("atom",), "C14": ("atom", "order"), "C16": ("atom", "decode", "order"),
    "C17": ("decode",), "C18": ("order",), "C19": ("order",), "C20": ("order", "locks"),
}

_cache = {}


def _ctx():
    if "P" not in _cache:
        d = facts.ensure_fixture_facts()
        crates = facts.load(d, crates=("verif_fixtures",))
        P = program.Program(crates)
        table = locks.LockTable({
            "classes": [{"class": "FA", "payload": "^verif_fixtures::PA$", "doc_name": "fa"},
                        {"class": "FB", "payload": "^verif_fixtures::PB$", "doc_name": "fb"},
                        {"class": "FM", "payload": "^u8$"}],
            "reference_order_prefix": [], "reference_order_suffix": ["FM"], "raw_lock_bodies": {},
            "acquisition_floors": {}})
        L = locks.LockEngine(P, table=table)
        L.order_adt = "verif_fixtures::Fix"
        L.solve()
        _cache.update(P=P, L=L, O=order.Order(P, L))
    return _cache["P"], _cache["L"], _cache["O"]


def run(pid, chk):
    engines = ENGINES.get(pid, ())
    if not engines:
        return
    P, L, O = _ctx()
    fx = "verif_fixtures::"
    if "locks" in engines:
        groups, info = L.verdict({})
        keys = " ".join(g["key"] for g in groups)
        chk.control("locks: order inversion in Fix::bad_order is reported", fx + "Fix::bad_order|FB:R" in keys)
        chk.control("locks: recursive read through a callback (Fix::bad_recursive_read) is reported",
                    "callback|" + fx + "Fix::bad_recursive_read" in keys)
        chk.control("locks: silent on Fix::good_order / Fix::good_callback",
                    "good_order" not in keys and "good_callback" not in keys)
    if "order" in engines:
        data, meta = M(fx + "data_sync"), M(fx + "meta_sync")
        chk.control("order: precedes fires on bad_sync_order", bool(O.precedes(P.bodies[fx + "bad_sync_order"], data, meta)))
        chk.control("order: precedes silent on good_sync_order", not O.precedes(P.bodies[fx + "good_sync_order"], data, meta))
        w, mk = M(fx + "raw_write"), M(fx + "mark")
        chk.control("order: followed_by fires on bad_followed", bool(O.followed_by(P.bodies[fx + "bad_followed"], w, mk, "ok")))
        chk.control("order: followed_by silent on good_followed (error exit is vacuous)",
                    not O.followed_by(P.bodies[fx + "good_followed"], w, mk, "ok"))
        for name, want in (("bad_claim", True), ("good_claim", False)):
            B = P.bodies[fx + name]
            st = O.typestate(B, True, O.sites(B, M(fx + "claim")), O.sites(B, M(fx + "release")))
            bad = [b for b in O.sites(B, M(fx + "use_space")) if not st[b]]
            chk.control("order: typestate %s on %s" % ("fires" if want else "silent", name), bool(bad) == want)
        bad, n = O.only_callers(mk, {fx + "only_from_here", fx + "good_followed", fx + "bad_followed"})
        chk.control("order: only_callers reports the intruder", any(b[0] == fx + "intruder" for b in bad))
    if "atom" in engines:
        A = atom.Atom(P, L).solve()
        chk.control("atom: Fix::bad_remove returns Still after a mutation", "Still" in A.DIRTY[fx + "Fix::bad_remove"])
        chk.control("atom: Fix::good_remove is clean", not A.DIRTY[fx + "Fix::good_remove"])
        chk.control("atom: `?` after a mutation (Fix::bad_question_mark) is dirty",
                    "Short" in A.DIRTY[fx + "Fix::bad_question_mark"])
        chk.control("atom: callee's own mutation counts on the Continue edge only (Fix::good_question_mark clean)",
                    not A.DIRTY[fx + "Fix::good_question_mark"])
    if "decode" in engines:
        D = decode.Decode(P)
        bad = [s for s in D.analyze(P.bodies[fx + "bad_decode"])["sites"] if not s["ok"]]
        kinds = {s["kind"] for s in bad}
        chk.control("decode: unguarded range index in bad_decode is reported", "range-index" in kinds)
        chk.control("decode: input-sized allocation in bad_decode is reported", "alloc:with_capacity" in kinds)
        good = [s for s in D.analyze(P.bodies[fx + "good_decode"])["sites"] if not s["ok"]]
        chk.control("decode: good_decode fully discharged", not good)
