"""Fact extraction (runs the rustc_private driver over /repo) and loading.

Facts are a pure function of the repo sources + driver + feature set; they are cached under
/verif/.cache/<config>/ keyed by a hash of those inputs (DESIGN.md §2.3).  Nothing of the
repository is executed: the driver runs inside `cargo +nightly check`.
"""
import hashlib
import json
import os
import re
import shutil
import subprocess
import sys
import tempfile
import time

VERIF = os.path.dirname(os.path.dirname(os.path.abspath(__file__)))
REPO = os.environ.get("VERIF_REPO", "/repo")
DRIVER_DIR = os.path.join(VERIF, "driver")
DRIVER_BIN = os.path.join(DRIVER_DIR, "target", "debug", "verif-driver")
CACHE = os.path.join(VERIF, ".cache")

CONFIGS = {
    # superset of what `cargo test --workspace` builds (pco + derive)
    "all": ["vecdb/pco", "vecdb/lz4", "vecdb/zstd", "vecdb/zerocopy", "vecdb/derive"],
    "test": ["vecdb/pco", "vecdb/derive"],
    "none": [],
}


def _run(cmd, env=None, cwd=None, timeout=1800):
    p = subprocess.run(cmd, env=env, cwd=cwd, stdout=subprocess.PIPE, stderr=subprocess.STDOUT,
                       text=True, timeout=timeout)
    return p.returncode, p.stdout


def sysroot():
    rc, out = _run(["rustc", "+nightly", "--print", "sysroot"])
    if rc != 0:
        raise RuntimeError("nightly toolchain missing: " + out)
    return out.strip()


def build_driver():
    """Build the driver if its binary is missing or older than its sources."""
    srcs = [os.path.join(DRIVER_DIR, "src", f) for f in os.listdir(os.path.join(DRIVER_DIR, "src"))]
    srcs.append(os.path.join(DRIVER_DIR, "Cargo.toml"))
    if os.path.exists(DRIVER_BIN):
        bt = os.path.getmtime(DRIVER_BIN)
        if all(os.path.getmtime(s) <= bt for s in srcs):
            return
    env = dict(os.environ, CARGO_NET_OFFLINE="true")
    rc, out = _run(["cargo", "build", "--offline"], env=env, cwd=DRIVER_DIR)
    if rc != 0:
        sys.stderr.write(out)
        raise RuntimeError("driver build failed")


def _hash_tree(root, h, exts=(".rs", ".toml", ".lock", ".md")):
    for d, dirs, files in sorted(os.walk(root)):
        dirs[:] = sorted(x for x in dirs if x not in ("target", ".git"))
        for f in sorted(files):
            if f.endswith(exts):
                p = os.path.join(d, f)
                h.update(os.path.relpath(p, root).encode())     # relative: the same tree elsewhere hashes the same
                with open(p, "rb") as fh:
                    h.update(fh.read())


def input_hash(repo, config):
    h = hashlib.sha256()
    h.update(config.encode())
    _hash_tree(os.path.join(repo, "crates"), h)
    for f in ("Cargo.toml", "Cargo.lock"):
        with open(os.path.join(repo, f), "rb") as fh:
            h.update(fh.read())
    _hash_tree(os.path.join(DRIVER_DIR, "src"), h)
    return h.hexdigest()


def _release_shared(tgt, lockfh):
    """drop the workspace members' artefacts (they belong to a worktree that is about to vanish) and unlock"""
    import glob as _glob
    for pat in ("debug/.fingerprint/rawdb-*", "debug/.fingerprint/vecdb*-*", "debug/deps/*rawdb-*", "debug/deps/*vecdb*-*",
                "debug/build/rawdb-*", "debug/build/vecdb*-*", "debug/incremental/rawdb-*", "debug/incremental/vecdb*-*"):
        for x in _glob.glob(os.path.join(tgt, pat)):
            if os.path.isdir(x):
                shutil.rmtree(x, ignore_errors=True)
            else:
                try:
                    os.remove(x)
                except OSError:
                    pass
    if lockfh is not None:
        try:
            import fcntl
            fcntl.flock(lockfh, fcntl.LOCK_UN)
            lockfh.close()
        except OSError:
            pass


def extract(repo, config, outdir, packages=("rawdb", "vecdb"), dump=("rawdb", "vecdb"), extra_args=(), require=None,
            _fresh_only=False):
    """Run cargo check with the driver as workspace wrapper; facts land in outdir."""
    build_driver()
    os.makedirs(outdir, exist_ok=True)
    for f in os.listdir(outdir):
        if f.endswith(".json"):
            os.remove(os.path.join(outdir, f))
    # Scratch trees (corpus patches in throw-away worktrees) share one target directory per configuration: the
    # registry dependencies are compiled once, only the workspace members (whose package ids differ with the
    # worktree path, so cargo never considers them fresh) are re-checked - and with them the driver runs.  /repo
    # itself and the fixtures always get a fresh directory.
    shared = (os.path.realpath(repo) != os.path.realpath(REPO) and config in CONFIGS and not _fresh_only
              and not os.environ.get("VERIF_NO_SHARED_TARGET"))
    lockfh = None
    if shared:
        os.makedirs(CACHE, exist_ok=True)
        tgt = os.path.join(CACHE, "target-%s" % config)
        import fcntl
        lockfh = open(tgt + ".lock", "w")
        fcntl.flock(lockfh, fcntl.LOCK_EX)
    else:
        tgt = tempfile.mkdtemp(prefix="verif-tgt-", dir=os.environ.get("VERIF_SCRATCH", "/tmp"))
    try:
        env = dict(os.environ)
        env.update({
            "LD_LIBRARY_PATH": sysroot() + "/lib",
            "RUSTFLAGS": "-Zmir-opt-level=0 -Zalways-encode-mir -Awarnings",
            "RUSTC_WORKSPACE_WRAPPER": DRIVER_BIN,
            "VERIF_DUMP_CRATES": ",".join(dump),
            "VERIF_WS_CRATES": "rawdb,vecdb,verif_fixtures",
            "VERIF_GUARD_ADTS": "crate::exit::guard::ExitGuard=R:();vecdb::exit::guard::ExitGuard=R:()",
            "VERIF_FACTS_DIR": outdir,
            "CARGO_TARGET_DIR": tgt,
            "CARGO_NET_OFFLINE": "true",
        })
        cmd = ["cargo", "+nightly", "check", "--offline"]
        for p in packages:
            cmd += ["-p", p]
        feats = CONFIGS[config] if config in CONFIGS else []
        if feats:
            cmd += ["--features", ",".join(feats)]
        cmd += list(extra_args)
        t0 = time.time()
        rc, out = _run(cmd, env=env, cwd=repo)
        dt = time.time() - t0
        if rc != 0:
            sys.stderr.write(out[-6000:])
            raise RuntimeError("fact extraction failed (cargo check exit %d)" % rc)
        for d in (require if require is not None else dump):
            if not os.path.exists(os.path.join(outdir, d + ".json")):
                if shared:
                    # cargo judged a member fresh (should not happen: the path differs) - fall back to a fresh dir
                    _release_shared(tgt, lockfh)
                    lockfh = None
                    shared = False
                    return extract(repo, config, outdir, packages, dump, extra_args, require, _fresh_only=True)
                sys.stderr.write(out[-3000:])
                raise RuntimeError("fact file missing for crate %s (driver skipped?)" % d)
        return dt
    finally:
        if shared:
            _release_shared(tgt, lockfh)
        elif lockfh is None and not tgt.startswith(CACHE):
            shutil.rmtree(tgt, ignore_errors=True)


def ensure_fixture_facts():
    """facts of /verif/fixtures (positive controls), cached by a hash of its sources and the driver."""
    build_driver()
    fx = os.path.join(VERIF, "fixtures")
    h = hashlib.sha256()
    _hash_tree(os.path.join(fx, "src"), h)
    _hash_tree(os.path.join(DRIVER_DIR, "src"), h)
    hx = h.hexdigest()
    d = os.path.join(CACHE, "fixtures")
    stamp = os.path.join(d, "HASH")
    if os.path.exists(stamp) and open(stamp).read().strip() == hx and os.path.exists(os.path.join(d, "verif_fixtures.json")):
        return d
    if os.path.exists(d):
        shutil.rmtree(d)
    os.makedirs(d)
    extract(fx, "fixtures", d, packages=("verif_fixtures",), dump=("verif_fixtures",))
    with open(stamp, "w") as fh:
        fh.write(hx)
    return d


def _prune_cache(keep=400):
    try:
        ds = [os.path.join(CACHE, x) for x in os.listdir(CACHE) if "-c" in x]
        if len(ds) > keep:
            ds.sort(key=lambda x: os.path.getmtime(x))
            for x in ds[:len(ds) - keep]:
                shutil.rmtree(x, ignore_errors=True)
    except OSError:
        pass


def ensure_facts(config="all", repo=None, force=False):
    """Return (dir, info) of fresh facts for `repo` in `config`, extracting if needed."""
    repo = repo or REPO
    build_driver()
    h = input_hash(repo, config)
    if os.path.realpath(repo) == os.path.realpath(REPO):
        tag = hashlib.sha256(repo.encode()).hexdigest()[:8]
    else:
        # scratch trees (corpus patches applied to a worktree): keyed by CONTENT, so the same patched tree is
        # extracted once and shared by every property's check; /repo itself keeps one slot that is overwritten
        tag = "c" + h[:15]
        _prune_cache()
    d = os.path.join(CACHE, "%s-%s" % (config, tag))
    if force:
        # a forced (thorough-tier) extraction gets its own directory: several checks may run at the same time
        d += "-forced%d" % os.getpid()
        for old in os.listdir(CACHE) if os.path.isdir(CACHE) else []:
            po = os.path.join(CACHE, old)
            try:
                if "-forced" in old and time.time() - os.path.getmtime(po) > 6 * 3600:
                    shutil.rmtree(po, ignore_errors=True)
            except OSError:
                pass
    stamp = os.path.join(d, "HASH")
    if not force and os.path.exists(stamp) and open(stamp).read().strip() == h:
        return d, {"cached": True, "extract_s": 0.0, "hash": h}
    # extract into a private directory and swap it in: another check may be reading or extracting the same slot
    tmpd = "%s.tmp%d" % (d, os.getpid())
    if os.path.exists(tmpd):
        shutil.rmtree(tmpd)
    os.makedirs(tmpd)
    dt = extract(repo, config, tmpd)
    with open(os.path.join(tmpd, "HASH"), "w") as fh:
        fh.write(h)
    if os.path.exists(d):
        if os.path.exists(stamp) and open(stamp).read().strip() == h and not force:
            shutil.rmtree(tmpd, ignore_errors=True)       # somebody else finished the same extraction meanwhile
            return d, {"cached": True, "extract_s": round(dt, 1), "hash": h}
        old = "%s.old%d" % (d, os.getpid())
        os.rename(d, old)
        os.rename(tmpd, d)
        shutil.rmtree(old, ignore_errors=True)
    else:
        os.rename(tmpd, d)
    return d, {"cached": False, "extract_s": round(dt, 1), "hash": h}


_CRATE_RE = re.compile(r"(?<![A-Za-z0-9_])crate::")


def load_crate(path):
    txt = open(path).read()
    m = re.match(r'\{"crate":"([A-Za-z0-9_]+)"', txt)
    name = m.group(1)
    txt = _CRATE_RE.sub(name + "::", txt)
    return json.loads(txt)


def load(d, crates=("rawdb", "vecdb")):
    return [load_crate(os.path.join(d, c + ".json")) for c in crates]
