//! Fact extractor: a rustc driver that dumps the type-checked, drop-elaborated MIR of
//! selected crates as JSON. It contains no rule logic. See /verif/DESIGN.md §2.1.
//!
//! Used as RUSTC_WORKSPACE_WRAPPER (argv[1] = real rustc, dropped). Crates named in
//! VERIF_DUMP_CRATES (comma separated) are dumped to $VERIF_FACTS_DIR/<crate>.json with one
//! write per process.
#![feature(rustc_private)]
#![allow(clippy::all)]

extern crate rustc_abi;
extern crate rustc_driver;
extern crate rustc_hir;
extern crate rustc_interface;
extern crate rustc_middle;
extern crate rustc_span;

mod json;

use json::J;
use rustc_driver::{Callbacks, Compilation};
use rustc_hir::def::DefKind;
use rustc_hir::def_id::{DefId, LOCAL_CRATE};
use rustc_interface::interface::Compiler;
use rustc_middle::mir::{
    self, AggregateKind, BasicBlock, Body, Operand, Place, ProjectionElem, Rvalue, StatementKind,
    TerminatorKind,
};
use rustc_middle::ty::{self, GenericArgsRef, Instance, Ty, TyCtxt, TypeVisitableExt, TypingEnv};
use rustc_span::Span;
use std::collections::{BTreeMap, BTreeSet, HashMap};

struct Cb;

impl Callbacks for Cb {
    fn after_analysis<'tcx>(&mut self, _c: &Compiler, tcx: TyCtxt<'tcx>) -> Compilation {
        let name = tcx.crate_name(LOCAL_CRATE).to_string();
        let want = std::env::var("VERIF_DUMP_CRATES").unwrap_or_default();
        if want.split(',').any(|w| w == name) {
            if let Ok(dir) = std::env::var("VERIF_FACTS_DIR") {
                let is_test = tcx.sess.opts.test;
                let j = rustc_middle::ty::print::with_no_trimmed_paths!(
                    rustc_middle::ty::print::with_no_visible_paths!(
                        rustc_middle::ty::print::with_crate_prefix!(dump_crate(tcx, &name))
                    )
                );
                let file = if is_test {
                    format!("{dir}/{name}.test.json")
                } else {
                    format!("{dir}/{name}.json")
                };
                let mut s = String::new();
                j.write(&mut s);
                std::fs::write(&file, s).expect("write facts");
            }
        }
        Compilation::Continue
    }
}

fn main() {
    let mut args: Vec<String> = std::env::args().collect();
    // wrapper mode: argv[1] is the path of the real rustc
    if args.len() > 1 && (args[1].ends_with("rustc") || args[1].contains("/rustc")) {
        args.remove(1);
    }
    rustc_driver::run_compiler(&args, &mut Cb);
}

// ---------------------------------------------------------------------------------------

struct Cx<'tcx> {
    tcx: TyCtxt<'tcx>,
    guard_cache: HashMap<Ty<'tcx>, Vec<(String, String, bool)>>,
    owner_cache: HashMap<Ty<'tcx>, Vec<String>>,
}

fn span_str(tcx: TyCtxt<'_>, sp: Span) -> String {
    let sm = tcx.sess.source_map();
    let sp = sp.source_callsite();
    let lo = sm.lookup_char_pos(sp.lo());
    let f = format!("{}", lo.file.name.prefer_local_unconditionally());
    format!("{}:{}", f, lo.line)
}

fn dump_crate<'tcx>(tcx: TyCtxt<'tcx>, name: &str) -> J {
    let mut cx = Cx { tcx, guard_cache: HashMap::new(), owner_cache: HashMap::new() };
    let mut bodies = Vec::new();
    for ldid in tcx.hir_body_owners() {
        let did = ldid.to_def_id();
        let kind = tcx.def_kind(did);
        match kind {
            DefKind::Fn | DefKind::AssocFn | DefKind::Closure => {}
            _ => continue,
        }
        if !tcx.is_mir_available(did) {
            continue;
        }
        // skip coroutines (none expected)
        if tcx.is_coroutine(did) {
            continue;
        }
        let body = tcx.optimized_mir(did);
        bodies.push(dump_body(&mut cx, did, kind, body));
    }

    // ADTs, traits, impls, consts, docs
    let mut adts = Vec::new();
    let mut impls = Vec::new();
    let mut consts = Vec::new();
    let mut traits = Vec::new();
    for id in tcx.hir_free_items() {
        let did = id.owner_id.to_def_id();
        match tcx.def_kind(did) {
            DefKind::Struct | DefKind::Enum | DefKind::Union => {
                let adt = tcx.adt_def(did);
                let mut vs = Vec::new();
                for v in adt.variants() {
                    let mut fs = Vec::new();
                    for f in v.fields.iter() {
                        let fty = tcx.type_of(f.did).instantiate_identity().skip_norm_wip();
                        let guards = cx.guards_of(fty);
                        let owners = cx.owners_of(fty);
                        fs.push(J::obj(vec![
                            ("name", J::s(f.name.as_str())),
                            ("ty", J::s(&format!("{fty}"))),
                            ("guards", guards_json(&guards)),
                            ("owners", J::arr(owners.iter().map(|s| J::s(s)).collect())),
                        ]));
                    }
                    vs.push(J::obj(vec![("name", J::s(v.name.as_str())), ("fields", J::arr(fs))]));
                }
                let mut doc = String::new();
                for attr in tcx.hir_attrs(id.hir_id()) {
                    if let Some(d) = attr.doc_str() {
                        doc.push_str(d.as_str());
                        doc.push('\n');
                    }
                }
                adts.push(J::obj(vec![
                    ("path", J::s(&tcx.def_path_str(did))),
                    ("span", J::s(&span_str(tcx, tcx.def_span(did)))),
                    ("variants", J::arr(vs)),
                    ("doc", J::s(&doc)),
                    ("has_drop", J::b(adt.has_dtor(tcx))),
                ]));
            }
            DefKind::Impl { of_trait } => {
                let self_ty = tcx.type_of(did).instantiate_identity().skip_norm_wip();
                let mut tr = J::Null;
                let mut methods = Vec::new();
                if of_trait {
                    let trait_ref = tcx.impl_trait_ref(did).instantiate_identity().skip_norm_wip();
                    tr = J::s(&tcx.def_path_str(trait_ref.def_id));
                    let map = tcx.impl_item_implementor_ids(did);
                    let mut ms: Vec<(String, String)> = map
                        .items()
                        .map(|(k, v)| (tcx.def_path_str(*k), body_id(tcx, *v)))
                        .into_sorted_stable_ord();
                    ms.sort();
                    for (k, v) in ms {
                        methods.push(J::arr(vec![J::s(&k), J::s(&v)]));
                    }
                }
                impls.push(J::obj(vec![
                    ("trait", tr),
                    ("self_ty", J::s(&format!("{self_ty}"))),
                    ("methods", J::arr(methods)),
                    ("span", J::s(&span_str(tcx, tcx.def_span(did)))),
                ]));
            }
            DefKind::Trait => {
                let mut items = Vec::new();
                for it in tcx.associated_items(did).in_definition_order() {
                    if matches!(it.kind, ty::AssocKind::Fn { .. }) {
                        items.push(J::obj(vec![
                            ("path", J::s(&tcx.def_path_str(it.def_id))),
                            ("has_default", J::b(it.defaultness(tcx).has_value())),
                        ]));
                    }
                }
                traits.push(J::obj(vec![("path", J::s(&tcx.def_path_str(did))), ("methods", J::arr(items))]));
            }
            DefKind::Const { .. } => {
                if let Some(v) = eval_const(tcx, did) {
                    consts.push(J::obj(vec![("path", J::s(&tcx.def_path_str(did))), ("value", J::s(&v))]));
                }
            }
            _ => {}
        }
    }
    // associated consts in impls
    for ldid in tcx.hir_body_owners() {
        let did = ldid.to_def_id();
        if matches!(tcx.def_kind(did), DefKind::AssocConst { .. }) {
            if let Some(v) = eval_const(tcx, did) {
                consts.push(J::obj(vec![("path", J::s(&body_id(tcx, did))), ("value", J::s(&v))]));
            }
        }
    }

    J::obj(vec![
        ("crate", J::s(name)),
        ("bodies", J::arr(bodies)),
        ("adts", J::arr(adts)),
        ("impls", J::arr(impls)),
        ("traits", J::arr(traits)),
        ("consts", J::arr(consts)),
    ])
}

fn eval_const(tcx: TyCtxt<'_>, did: DefId) -> Option<String> {
    if tcx.generics_of(did).requires_monomorphization(tcx) {
        return None;
    }
    let ty = tcx.type_of(did).instantiate_identity().skip_norm_wip();
    match tcx.const_eval_poly(did) {
        Ok(val) => {
            if let Some(s) = val.try_to_scalar_int() {
                if ty.is_integral() || ty.is_bool() {
                    return Some(format!("{}", s.to_bits_unchecked()));
                }
                return Some(format!("scalar:{}:{}", ty, s.to_bits_unchecked()));
            }
            Some(format!("opaque:{ty}"))
        }
        Err(_) => None,
    }
}

/// Stable body identifier (no line numbers): pretty def path; for trait impl methods the
/// pretty path already includes `<T as Trait>::m`.
fn body_id(tcx: TyCtxt<'_>, did: DefId) -> String {
    tcx.def_path_str(did)
}

fn guards_json(g: &[(String, String, bool)]) -> J {
    J::arr(
        g.iter()
            .map(|(m, p, r)| J::arr(vec![J::s(m), J::s(p), J::b(*r)]))
            .collect(),
    )
}

impl<'tcx> Cx<'tcx> {
    /// Lock guards (mode, payload type, through-reference) contained in a type, by walking ADT
    /// fields. Does not look through `Arc`, raw pointers, or into lock payloads.
    fn guards_of(&mut self, ty: Ty<'tcx>) -> Vec<(String, String, bool)> {
        if let Some(v) = self.guard_cache.get(&ty) {
            return v.clone();
        }
        let mut out = BTreeSet::new();
        let mut seen = BTreeSet::new();
        self.walk_guards(ty, false, 0, &mut out, &mut seen);
        let v: Vec<_> = out.into_iter().collect();
        self.guard_cache.insert(ty, v.clone());
        v
    }

    fn walk_guards(
        &self,
        ty: Ty<'tcx>,
        via_ref: bool,
        depth: usize,
        out: &mut BTreeSet<(String, String, bool)>,
        seen: &mut BTreeSet<String>,
    ) {
        if depth > 8 {
            return;
        }
        let tcx = self.tcx;
        match ty.kind() {
            ty::Adt(adt, args) => {
                let kr = tcx.crate_name(adt.did().krate);
                let kr = kr.as_str();
                let nm = tcx.item_name(adt.did());
                let nm = nm.as_str();
                let guard_mode = if kr == "lock_api" || kr == "std" {
                    match nm {
                        "RwLockReadGuard" | "MappedRwLockReadGuard" | "ArcRwLockReadGuard" => Some("R"),
                        "RwLockWriteGuard" | "MappedRwLockWriteGuard" | "ArcRwLockWriteGuard" => Some("W"),
                        "RwLockUpgradableReadGuard" | "ArcRwLockUpgradableReadGuard" => Some("U"),
                        "MutexGuard" | "MappedMutexGuard" | "ArcMutexGuard" => Some("M"),
                        _ => None,
                    }
                } else {
                    None
                };
                if guard_mode.is_none() {
                    if let Ok(extra) = std::env::var("VERIF_GUARD_ADTS") {
                        let path = tcx.def_path_str(adt.did());
                        for ent in extra.split(';') {
                            if let Some((p, spec)) = ent.split_once('=') {
                                if p == path {
                                    if let Some((m, payload)) = spec.split_once(':') {
                                        out.insert((m.to_string(), payload.to_string(), via_ref));
                                        return;
                                    }
                                }
                            }
                        }
                    }
                }
                if let Some(m) = guard_mode {
                    // payload = last type argument
                    let payload = args.types().last().map(|t| format!("{t}")).unwrap_or_default();
                    out.insert((m.to_string(), payload, via_ref));
                    return;
                }
                // do not descend into shared-ownership / lock containers
                if matches!(nm, "Arc" | "Weak" | "Rc" | "PhantomData")
                    || kr == "lock_api"
                    || nm.starts_with("Atomic")
                {
                    return;
                }
                let key = format!("{ty}");
                if !seen.insert(key) {
                    return;
                }
                if adt.is_box() {
                    if let Some(inner) = args.types().next() {
                        self.walk_guards(inner, via_ref, depth + 1, out, seen);
                    }
                    return;
                }
                // containers: look at type args (Vec<Guard>, Option<Guard>)
                if adt.did().krate != LOCAL_CRATE && !is_ws_crate(tcx, adt.did()) {
                    for t in args.types() {
                        self.walk_guards(t, via_ref, depth + 1, out, seen);
                    }
                    return;
                }
                for v in adt.variants() {
                    for f in v.fields.iter() {
                        let fty = f.ty(tcx, args);
                        self.walk_guards(fty, via_ref, depth + 1, out, seen);
                    }
                }
            }
            ty::Ref(_, inner, _) => self.walk_guards(*inner, true, depth + 1, out, seen),
            ty::Tuple(ts) => {
                for t in ts.iter() {
                    self.walk_guards(t, via_ref, depth + 1, out, seen);
                }
            }
            ty::Array(t, _) | ty::Slice(t) => self.walk_guards(*t, via_ref, depth + 1, out, seen),
            ty::Closure(_, args) => {
                for t in args.as_closure().upvar_tys() {
                    self.walk_guards(t, via_ref, depth + 1, out, seen);
                }
            }
            _ => {}
        }
    }

    /// Owned (not through reference/Arc) workspace ADTs with a Drop impl contained in a type,
    /// e.g. `rawdb::Database`. Used for "drop may run <X as Drop>::drop".
    fn owners_of(&mut self, ty: Ty<'tcx>) -> Vec<String> {
        if let Some(v) = self.owner_cache.get(&ty) {
            return v.clone();
        }
        let mut out = BTreeSet::new();
        let mut seen = BTreeSet::new();
        self.walk_owners(ty, 0, &mut out, &mut seen);
        let v: Vec<_> = out.into_iter().collect();
        self.owner_cache.insert(ty, v.clone());
        v
    }

    fn walk_owners(&self, ty: Ty<'tcx>, depth: usize, out: &mut BTreeSet<String>, seen: &mut BTreeSet<String>) {
        if depth > 8 {
            return;
        }
        let tcx = self.tcx;
        match ty.kind() {
            ty::Adt(adt, args) => {
                let path = tcx.def_path_str(adt.did());
                let nm = tcx.item_name(adt.did());
                let nm = nm.as_str();
                let kr = tcx.crate_name(adt.did().krate);
                if matches!(nm, "Weak" | "PhantomData")
                    || (nm.ends_with("Guard") && matches!(kr.as_str(), "lock_api" | "std"))
                {
                    return;
                }
                let key = format!("{ty}");
                if !seen.insert(key) {
                    return;
                }
                if is_ws_crate(tcx, adt.did()) && adt.has_dtor(tcx) {
                    out.insert(path.clone());
                }
                if is_ws_crate(tcx, adt.did()) {
                    for v in adt.variants() {
                        for f in v.fields.iter() {
                            let fty = f.ty(tcx, args);
                            self.walk_owners(fty, depth + 1, out, seen);
                        }
                    }
                } else {
                    // foreign container (Arc, Vec, Option, Box, RwLock ...): owned type args
                    for t in args.types() {
                        self.walk_owners(t, depth + 1, out, seen);
                    }
                }
            }
            ty::Tuple(ts) => {
                for t in ts.iter() {
                    self.walk_owners(t, depth + 1, out, seen);
                }
            }
            ty::Array(t, _) | ty::Slice(t) => self.walk_owners(*t, depth + 1, out, seen),
            ty::Closure(_, args) => {
                for t in args.as_closure().upvar_tys() {
                    self.walk_owners(t, depth + 1, out, seen);
                }
            }
            _ => {}
        }
    }
}

fn is_ws_crate(tcx: TyCtxt<'_>, did: DefId) -> bool {
    if did.krate == LOCAL_CRATE {
        return true;
    }
    let n = tcx.crate_name(did.krate);
    let ws = std::env::var("VERIF_WS_CRATES").unwrap_or_else(|_| "rawdb,vecdb,verif_fixtures".into());
    ws.split(',').any(|w| w == n.as_str())
}

fn callable_kind<'tcx>(tcx: TyCtxt<'tcx>, owner: DefId, ty: Ty<'tcx>) -> Option<String> {
    let mut t = ty;
    loop {
        match t.kind() {
            ty::Ref(_, inner, _) => t = *inner,
            ty::Adt(adt, args) if adt.is_box() => {
                if let Some(i) = args.types().next() {
                    t = i
                } else {
                    return None;
                }
            }
            _ => break,
        }
    }
    match t.kind() {
        ty::Closure(did, _) => Some(format!("closure:{}", body_id(tcx, *did))),
        ty::FnDef(did, _) => Some(format!("fndef:{}", body_id(tcx, *did))),
        ty::FnPtr(..) => Some("fnptr".into()),
        ty::Dynamic(preds, ..) => {
            let s = format!("{t}");
            if s.contains("Fn(") || s.contains("FnMut(") || s.contains("FnOnce(") {
                let _ = preds;
                Some("dynfn".into())
            } else {
                None
            }
        }
        ty::Param(_) | ty::Alias(..) => {
            // type parameter with an Fn* bound in the owner's predicates
            let preds = tcx.predicates_of(owner).instantiate_identity(tcx);
            for (p, _) in preds.predicates.iter().zip(preds.spans.iter()) {
                let p = p.skip_norm_wip();
                if let Some(tp) = p.as_trait_clause() {
                    let tp = tp.skip_binder();
                    if tp.self_ty() == t {
                        let n = tcx.def_path_str(tp.def_id());
                        if n.ends_with("::Fn") || n.ends_with("::FnMut") || n.ends_with("::FnOnce") {
                            return Some("paramfn".into());
                        }
                    }
                }
            }
            None
        }
        _ => None,
    }
}

fn dump_body<'tcx>(cx: &mut Cx<'tcx>, did: DefId, kind: DefKind, body: &Body<'tcx>) -> J {
    let tcx = cx.tcx;
    let id = body_id(tcx, did);
    let mut fields: Vec<(&str, J)> = Vec::new();
    fields.push(("id", J::s(&id)));
    fields.push(("krate", J::s(tcx.crate_name(did.krate).as_str())));
    fields.push(("span", J::s(&span_str(tcx, tcx.def_span(did)))));
    fields.push((
        "kind",
        J::s(match kind {
            DefKind::Fn => "fn",
            DefKind::AssocFn => "assoc",
            DefKind::Closure => "closure",
            _ => "other",
        }),
    ));
    let is_closure = tcx.is_closure_like(did);
    if is_closure {
        fields.push(("parent", J::s(&body_id(tcx, tcx.parent(did)))));
        // enclosing non-closure fn
        let root = tcx.typeck_root_def_id(did);
        fields.push(("root", J::s(&body_id(tcx, root))));
    } else {
        fields.push(("parent", J::Null));
        fields.push(("root", J::s(&id)));
    }
    if matches!(kind, DefKind::Fn | DefKind::AssocFn) {
        let vis = tcx.visibility(did);
        fields.push(("pub", J::b(vis.is_public())));
    } else {
        fields.push(("pub", J::b(false)));
    }
    // trait relation
    let mut trait_method = J::Null;
    let mut impl_self = J::Null;
    let mut in_trait = J::Null;
    if matches!(kind, DefKind::AssocFn) {
        let item = tcx.associated_item(did);
        if let Some(tid) = item.trait_item_def_id() {
            if tid != did {
                trait_method = J::s(&tcx.def_path_str(tid));
            }
        }
        let parent = tcx.parent(did);
        match tcx.def_kind(parent) {
            DefKind::Impl { .. } => {
                let st = tcx.type_of(parent).instantiate_identity().skip_norm_wip();
                impl_self = J::s(&format!("{st}"));
            }
            DefKind::Trait => {
                in_trait = J::s(&tcx.def_path_str(parent));
            }
            _ => {}
        }
    }
    fields.push(("trait_method", trait_method));
    fields.push(("impl_self", impl_self));
    fields.push(("in_trait", in_trait));
    fields.push(("arg_count", J::n(body.arg_count as i64)));

    // locals
    let typeck_owner = tcx.typeck_root_def_id(did);
    let mut locals = Vec::new();
    for (_l, decl) in body.local_decls.iter_enumerated() {
        let ty = decl.ty;
        let guards = cx.guards_of(ty);
        let owners = cx.owners_of(ty);
        let mut f = vec![("ty", J::s(&format!("{ty}")))];
        if !guards.is_empty() {
            f.push(("guards", guards_json(&guards)));
        }
        if !owners.is_empty() {
            f.push(("owners", J::arr(owners.iter().map(|s| J::s(s)).collect())));
        }
        if let Some(c) = callable_kind(tcx, typeck_owner, ty) {
            f.push(("callable", J::s(&c)));
        }
        if matches!(ty.kind(), ty::Ref(_, _, m) if m.is_mut()) {
            f.push(("mutref", J::b(true)));
        }
        let mut clos: Vec<String> = Vec::new();
        for ga in ty.walk() {
            if let Some(t) = ga.as_type() {
                if let ty::Closure(cd, _) = t.kind() {
                    let id = body_id(tcx, *cd);
                    if !clos.contains(&id) {
                        clos.push(id);
                    }
                }
            }
        }
        if !clos.is_empty() {
            f.push(("closures", J::arr(clos.iter().map(|s| J::s(s)).collect())));
        }
        let mut cps: Vec<String> = Vec::new();
        for ga in ty.walk() {
            if let Some(t) = ga.as_type() {
                if matches!(t.kind(), ty::Param(_)) {
                    if let Some(k) = callable_kind(tcx, typeck_owner, t) {
                        if k == "paramfn" {
                            let n = format!("{t}");
                            if !cps.contains(&n) {
                                cps.push(n);
                            }
                        }
                    }
                }
            }
        }
        if !cps.is_empty() {
            f.push(("cparams", J::arr(cps.iter().map(|s| J::s(s)).collect())));
        }
        // workspace traits bounding the (peeled) parameter type: `&impl ReadableVec<..>`, `&[&O]` ...
        if _l.as_usize() >= 1 && _l.as_usize() <= body.arg_count {
            let mut t = ty;
            loop {
                match t.kind() {
                    ty::Ref(_, inner, _) => t = *inner,
                    ty::Slice(inner) | ty::Array(inner, _) => t = *inner,
                    _ => break,
                }
            }
            if matches!(t.kind(), ty::Param(_)) {
                let mut tb: Vec<String> = Vec::new();
                let preds = tcx.predicates_of(typeck_owner).instantiate_identity(tcx);
                for p in preds.predicates.iter() {
                    let p = p.skip_norm_wip();
                    if let Some(tp) = p.as_trait_clause() {
                        let tp = tp.skip_binder();
                        if tp.self_ty() == t {
                            let n = tcx.def_path_str(tp.def_id());
                            if !tb.contains(&n) {
                                tb.push(n);
                            }
                        }
                    }
                }
                if !tb.is_empty() {
                    f.push(("tbounds", J::arr(tb.iter().map(|s| J::s(s)).collect())));
                }
            }
        }
        locals.push(J::obj(f));
    }
    fields.push(("locals", J::arr(locals)));

    // variable names
    let mut names = Vec::new();
    for vdi in &body.var_debug_info {
        if let mir::VarDebugInfoContents::Place(p) = &vdi.value {
            names.push(J::arr(vec![J::s(vdi.name.as_str()), place_json(tcx, body, p)]));
        }
    }
    fields.push(("vars", J::arr(names)));

    // blocks
    let mut blocks = Vec::new();
    for (_bb, data) in body.basic_blocks.iter_enumerated() {
        let mut stmts = Vec::new();
        for st in &data.statements {
            match &st.kind {
                StatementKind::Assign(b) => {
                    let (place, rv) = &**b;
                    stmts.push(J::arr(vec![
                        J::s("assign"),
                        place_json(tcx, body, place),
                        rvalue_json(cx, did, body, rv),
                        J::s(&span_str(tcx, st.source_info.span)),
                    ]));
                }
                StatementKind::StorageDead(l) => {
                    stmts.push(J::arr(vec![J::s("dead"), J::n(l.as_usize() as i64)]));
                }
                StatementKind::StorageLive(l) => {
                    stmts.push(J::arr(vec![J::s("live"), J::n(l.as_usize() as i64)]));
                }
                StatementKind::SetDiscriminant { place, variant_index } => {
                    stmts.push(J::arr(vec![
                        J::s("setdiscr"),
                        place_json(tcx, body, place),
                        J::n(variant_index.as_usize() as i64),
                    ]));
                }
                StatementKind::Intrinsic(i) => {
                    if let mir::NonDivergingIntrinsic::CopyNonOverlapping(c) = &**i {
                        stmts.push(J::arr(vec![
                            J::s("copy_nonoverlapping"),
                            operand_json(cx, did, body, &c.src),
                            operand_json(cx, did, body, &c.dst),
                            operand_json(cx, did, body, &c.count),
                        ]));
                    }
                }
                _ => {}
            }
        }
        let term = data.terminator();
        let tj = term_json(cx, did, body, term);
        blocks.push(J::obj(vec![
            ("stmts", J::arr(stmts)),
            ("term", tj),
            ("cleanup", J::b(data.is_cleanup)),
        ]));
    }
    fields.push(("blocks", J::arr(blocks)));
    J::obj(fields)
}

fn bbn(b: BasicBlock) -> J {
    J::n(b.as_usize() as i64)
}

fn place_json<'tcx>(tcx: TyCtxt<'tcx>, body: &Body<'tcx>, p: &Place<'tcx>) -> J {
    let mut projs = Vec::new();
    let mut pty = mir::PlaceTy::from_ty(body.local_decls[p.local].ty);
    for elem in p.projection.iter() {
        match elem {
            ProjectionElem::Deref => projs.push(J::s("*")),
            ProjectionElem::Field(f, _) => {
                let mut name = format!("{}", f.as_usize());
                if let ty::Adt(adt, _) = pty.ty.kind() {
                    let vidx = pty.variant_index.unwrap_or(rustc_abi::FIRST_VARIANT);
                    if adt.is_enum() || adt.is_struct() || adt.is_union() {
                        if let Some(v) = adt.variants().get(vidx) {
                            if let Some(fd) = v.fields.get(f) {
                                name = fd.name.to_string();
                            }
                        }
                    }
                }
                projs.push(J::arr(vec![J::s("f"), J::n(f.as_usize() as i64), J::s(&name)]));
            }
            ProjectionElem::Index(l) => projs.push(J::arr(vec![J::s("i"), J::n(l.as_usize() as i64)])),
            ProjectionElem::ConstantIndex { offset, from_end, .. } => {
                projs.push(J::arr(vec![J::s("ci"), J::n(offset as i64), J::b(from_end)]))
            }
            ProjectionElem::Subslice { from, to, from_end } => {
                projs.push(J::arr(vec![J::s("sub"), J::n(from as i64), J::n(to as i64), J::b(from_end)]))
            }
            ProjectionElem::Downcast(sym, vi) => {
                let mut name = sym.map(|s| s.to_string()).unwrap_or_default();
                if name.is_empty() {
                    if let ty::Adt(adt, _) = pty.ty.kind() {
                        name = adt.variant(vi).name.to_string();
                    }
                }
                projs.push(J::arr(vec![J::s("d"), J::s(&name)]))
            }
            _ => projs.push(J::s("?")),
        }
        pty = pty.projection_ty(tcx, elem);
    }
    J::obj(vec![("l", J::n(p.local.as_usize() as i64)), ("p", J::arr(projs))])
}

fn fn_ref_json<'tcx>(cx: &mut Cx<'tcx>, owner: DefId, fid: DefId, args: GenericArgsRef<'tcx>) -> J {
    let tcx = cx.tcx;
    let mut f: Vec<(&str, J)> = Vec::new();
    f.push(("path", J::s(&tcx.def_path_str(fid))));
    f.push(("full", J::s(&tcx.def_path_str_with_args(fid, args))));
    f.push(("krate", J::s(tcx.crate_name(fid.krate).as_str())));
    f.push(("targs", J::arr(args.types().map(|t| J::s(&format!("{t}"))).collect())));
    let mut trait_path = None;
    if matches!(tcx.def_kind(fid), DefKind::AssocFn) {
        if let Some(tr) = tcx.trait_of_assoc(fid) {
            trait_path = Some(tcx.def_path_str(tr));
        }
    }
    if let Some(tp) = &trait_path {
        f.push(("trait", J::s(tp)));
        if let Some(st) = args.types().next() {
            f.push(("self_ty", J::s(&format!("{st}"))));
        }
    }
    // size_of::<T>() / align_of::<T>() of a concrete T: export the value (decoder guards compare against it)
    {
        let pth = tcx.def_path_str(fid);
        if pth == "core::mem::size_of" || pth == "core::intrinsics::size_of" || pth == "std::mem::size_of" {
            if let Some(t) = args.types().next() {
                if !t.has_param() && !t.has_aliases() {
                    let env2 = TypingEnv::fully_monomorphized();
                    if let Ok(lay) = tcx.layout_of(env2.as_query_input(t)) {
                        f.push(("size_of", J::s(&format!("{}", lay.size.bytes()))));
                    }
                }
            }
        }
    }
    // resolution
    let env = TypingEnv::post_analysis(tcx, owner);
    let resolved = std::panic::catch_unwind(std::panic::AssertUnwindSafe(|| {
        Instance::try_resolve(tcx, env, fid, args)
    }));
    match resolved {
        Ok(Ok(Some(inst))) => {
            let rid = inst.def_id();
            let kind = match inst.def {
                ty::InstanceKind::Item(_) => "item",
                ty::InstanceKind::Virtual(..) => "virtual",
                ty::InstanceKind::ClosureOnceShim { .. } => "closure_once",
                ty::InstanceKind::FnPtrShim(..) => "fnptr_shim",
                ty::InstanceKind::DropGlue(..) => "drop_glue",
                ty::InstanceKind::CloneShim(..) => "clone_shim",
                ty::InstanceKind::Intrinsic(..) => "intrinsic",
                _ => "other",
            };
            f.push(("rkind", J::s(kind)));
            f.push(("rpath", J::s(&body_id(tcx, rid))));
            f.push(("rkrate", J::s(tcx.crate_name(rid.krate).as_str())));
        }
        _ => {
            f.push(("rkind", J::s("unresolved")));
        }
    }
    J::obj(f)
}

fn const_json<'tcx>(cx: &mut Cx<'tcx>, owner: DefId, c: &mir::ConstOperand<'tcx>) -> J {
    let tcx = cx.tcx;
    let ty = c.const_.ty();
    let mut f: Vec<(&str, J)> = Vec::new();
    if let ty::FnDef(fid, args) = ty.kind() {
        f.push(("fn", fn_ref_json(cx, owner, *fid, args)));
        return J::obj(vec![("k", J::obj(f))]);
    }
    f.push(("ty", J::s(&format!("{ty}"))));
    let env = TypingEnv::post_analysis(tcx, owner);
    let v = std::panic::catch_unwind(std::panic::AssertUnwindSafe(|| c.const_.try_eval_scalar_int(tcx, env)));
    if let Ok(Some(s)) = v {
        f.push(("v", J::s(&format!("{}", s.to_bits_unchecked()))));
    }
    // named constant?
    if let mir::Const::Unevaluated(u, _) = c.const_ {
        f.push(("name", J::s(&tcx.def_path_str(u.def))));
    }
    J::obj(vec![("k", J::obj(f))])
}

fn operand_json<'tcx>(cx: &mut Cx<'tcx>, owner: DefId, body: &Body<'tcx>, op: &Operand<'tcx>) -> J {
    match op {
        Operand::Copy(p) => J::obj(vec![("c", place_json(cx.tcx, body, p))]),
        Operand::Move(p) => J::obj(vec![("m", place_json(cx.tcx, body, p))]),
        Operand::Constant(c) => const_json(cx, owner, c),
        _ => J::obj(vec![("k", J::obj(vec![("ty", J::s("runtime_checks"))]))]),
    }
}

fn rvalue_json<'tcx>(cx: &mut Cx<'tcx>, owner: DefId, body: &Body<'tcx>, rv: &Rvalue<'tcx>) -> J {
    let tcx = cx.tcx;
    match rv {
        Rvalue::Use(op, ..) => J::obj(vec![("k", J::s("use")), ("ops", J::arr(vec![operand_json(cx, owner, body, op)]))]),
        Rvalue::Repeat(op, _) => {
            J::obj(vec![("k", J::s("repeat")), ("ops", J::arr(vec![operand_json(cx, owner, body, op)]))])
        }
        Rvalue::Ref(_, bk, p) => J::obj(vec![
            ("k", J::s("ref")),
            ("mut", J::b(matches!(bk, mir::BorrowKind::Mut { .. }))),
            ("place", place_json(tcx, body, p)),
        ]),
        Rvalue::RawPtr(k, p) => J::obj(vec![
            ("k", J::s("rawptr")),
            ("mut", J::b(matches!(k, mir::RawPtrKind::Mut))),
            ("place", place_json(tcx, body, p)),
        ]),
        Rvalue::Cast(ck, op, ty) => J::obj(vec![
            ("k", J::s("cast")),
            ("ck", J::s(&format!("{ck:?}"))),
            ("ty", J::s(&format!("{ty}"))),
            ("ops", J::arr(vec![operand_json(cx, owner, body, op)])),
        ]),
        Rvalue::BinaryOp(op, b) => J::obj(vec![
            ("k", J::s("bin")),
            ("op", J::s(&format!("{op:?}"))),
            ("ops", J::arr(vec![operand_json(cx, owner, body, &b.0), operand_json(cx, owner, body, &b.1)])),
        ]),
        Rvalue::UnaryOp(op, o) => J::obj(vec![
            ("k", J::s("un")),
            ("op", J::s(&format!("{op:?}"))),
            ("ops", J::arr(vec![operand_json(cx, owner, body, o)])),
        ]),
        Rvalue::Discriminant(p) => J::obj(vec![("k", J::s("discr")), ("place", place_json(tcx, body, p))]),
        Rvalue::Aggregate(ak, ops) => {
            let mut f: Vec<(&str, J)> = vec![("k", J::s("agg"))];
            match &**ak {
                AggregateKind::Adt(did, vi, _, _, _) => {
                    let adt = tcx.adt_def(*did);
                    f.push(("adt", J::s(&tcx.def_path_str(*did))));
                    f.push(("variant", J::s(adt.variant(*vi).name.as_str())));
                }
                AggregateKind::Closure(did, _) => {
                    f.push(("closure", J::s(&body_id(tcx, *did))));
                }
                AggregateKind::Tuple => f.push(("tuple", J::b(true))),
                AggregateKind::Array(_) => f.push(("array", J::b(true))),
                AggregateKind::RawPtr(..) => f.push(("rawptr", J::b(true))),
                _ => f.push(("other", J::b(true))),
            }
            let o: Vec<J> = ops.iter().map(|o| operand_json(cx, owner, body, o)).collect();
            f.push(("ops", J::arr(o)));
            J::obj(f)
        }
        Rvalue::CopyForDeref(p) => J::obj(vec![
            ("k", J::s("use")),
            ("ops", J::arr(vec![J::obj(vec![("c", place_json(tcx, body, p))])])),
        ]),
        Rvalue::ThreadLocalRef(_) => J::obj(vec![("k", J::s("tls")), ("ops", J::arr(vec![]))]),
        Rvalue::WrapUnsafeBinder(op, _) => {
            J::obj(vec![("k", J::s("use")), ("ops", J::arr(vec![operand_json(cx, owner, body, op)]))])
        }
    }
}

fn term_json<'tcx>(cx: &mut Cx<'tcx>, owner: DefId, body: &Body<'tcx>, term: &mir::Terminator<'tcx>) -> J {
    let tcx = cx.tcx;
    let span = term.source_info.span;
    let unwind_bb = |u: &mir::UnwindAction| match u {
        mir::UnwindAction::Cleanup(b) => bbn(*b),
        _ => J::Null,
    };
    match &term.kind {
        TerminatorKind::Goto { target } => J::obj(vec![("k", J::s("goto")), ("target", bbn(*target))]),
        TerminatorKind::SwitchInt { discr, targets } => {
            let mut ts = Vec::new();
            for (v, b) in targets.iter() {
                ts.push(J::arr(vec![J::s(&format!("{v}")), bbn(b)]));
            }
            J::obj(vec![
                ("k", J::s("switch")),
                ("op", operand_json(cx, owner, body, discr)),
                ("targets", J::arr(ts)),
                ("otherwise", bbn(targets.otherwise())),
            ])
        }
        TerminatorKind::Return => J::obj(vec![("k", J::s("return"))]),
        TerminatorKind::Unreachable => J::obj(vec![("k", J::s("unreachable"))]),
        TerminatorKind::UnwindResume => J::obj(vec![("k", J::s("resume"))]),
        TerminatorKind::UnwindTerminate(_) => J::obj(vec![("k", J::s("terminate"))]),
        TerminatorKind::Drop { place, target, unwind, .. } => {
            let ty = place.ty(&body.local_decls, tcx).ty;
            let guards = cx.guards_of(ty);
            let owners = cx.owners_of(ty);
            J::obj(vec![
                ("k", J::s("drop")),
                ("place", place_json(tcx, body, place)),
                ("ty", J::s(&format!("{ty}"))),
                ("guards", guards_json(&guards)),
                ("owners", J::arr(owners.iter().map(|s| J::s(s)).collect())),
                ("target", bbn(*target)),
                ("unwind", unwind_bb(unwind)),
                ("span", J::s(&span_str(tcx, span))),
            ])
        }
        TerminatorKind::Call { func, args, destination, target, unwind, .. } => {
            let mut f: Vec<(&str, J)> = vec![("k", J::s("call"))];
            match func {
                Operand::Constant(c) => {
                    if let ty::FnDef(fid, gargs) = c.const_.ty().kind() {
                        f.push(("callee", fn_ref_json(cx, owner, *fid, gargs)));
                    } else {
                        f.push(("callee", J::obj(vec![("path", J::s("<const-fnptr>")), ("rkind", J::s("unresolved"))])));
                    }
                }
                Operand::Copy(p) | Operand::Move(p) => {
                    f.push((
                        "callee",
                        J::obj(vec![
                            ("path", J::s("<indirect>")),
                            ("rkind", J::s("indirect")),
                            ("place", place_json(tcx, body, p)),
                        ]),
                    ));
                }
                _ => {
                    f.push(("callee", J::obj(vec![("path", J::s("<unknown>")), ("rkind", J::s("unresolved"))])));
                }
            }
            let a: Vec<J> = args.iter().map(|a| operand_json(cx, owner, body, &a.node)).collect();
            f.push(("args", J::arr(a)));
            f.push(("dest", place_json(tcx, body, destination)));
            f.push(("target", target.map(bbn).unwrap_or(J::Null)));
            f.push(("unwind", unwind_bb(unwind)));
            f.push(("span", J::s(&span_str(tcx, span))));
            f.push(("exp", J::b(span.from_expansion())));
            J::obj(f)
        }
        TerminatorKind::TailCall { .. } => J::obj(vec![("k", J::s("tailcall"))]),
        TerminatorKind::Assert { cond, expected, msg, target, unwind } => {
            let kind = {
                let s = format!("{:?}", msg);
                // keep the head of the debug string, e.g. BoundsCheck / Overflow(Add, ..)
                let head: String = s.chars().take(60).collect();
                head
            };
            let mut aops: Vec<J> = Vec::new();
            let akind: &str = match &**msg {
                mir::AssertKind::BoundsCheck { len, index } => {
                    aops.push(operand_json(cx, owner, body, len));
                    aops.push(operand_json(cx, owner, body, index));
                    "BoundsCheck"
                }
                mir::AssertKind::Overflow(op, a, b) => {
                    aops.push(operand_json(cx, owner, body, a));
                    aops.push(operand_json(cx, owner, body, b));
                    match op {
                        mir::BinOp::Add => "Overflow(Add)",
                        mir::BinOp::Sub => "Overflow(Sub)",
                        mir::BinOp::Mul => "Overflow(Mul)",
                        mir::BinOp::Shl => "Overflow(Shl)",
                        mir::BinOp::Shr => "Overflow(Shr)",
                        _ => "Overflow(Other)",
                    }
                }
                mir::AssertKind::OverflowNeg(o) => {
                    aops.push(operand_json(cx, owner, body, o));
                    "OverflowNeg"
                }
                mir::AssertKind::DivisionByZero(o) => {
                    aops.push(operand_json(cx, owner, body, o));
                    "DivisionByZero"
                }
                mir::AssertKind::RemainderByZero(o) => {
                    aops.push(operand_json(cx, owner, body, o));
                    "RemainderByZero"
                }
                mir::AssertKind::MisalignedPointerDereference { .. } => "MisalignedPointerDereference",
                mir::AssertKind::NullPointerDereference => "NullPointerDereference",
                _ => "Other",
            };
            J::obj(vec![
                ("k", J::s("assert")),
                ("akind", J::s(akind)),
                ("aops", J::arr(aops)),
                ("cond", operand_json(cx, owner, body, cond)),
                ("expected", J::b(*expected)),
                ("msg", J::s(&kind)),
                ("target", bbn(*target)),
                ("unwind", unwind_bb(unwind)),
                ("span", J::s(&span_str(tcx, span))),
            ])
        }
        TerminatorKind::FalseEdge { real_target, .. } => {
            J::obj(vec![("k", J::s("goto")), ("target", bbn(*real_target))])
        }
        TerminatorKind::FalseUnwind { real_target, .. } => {
            J::obj(vec![("k", J::s("goto")), ("target", bbn(*real_target))])
        }
        _ => J::obj(vec![("k", J::s("other"))]),
    }
}

#[allow(dead_code)]
fn _unused(_: BTreeMap<u8, u8>) {}
