//! Minimal JSON value + writer (the driver has zero cargo dependencies).

pub enum J {
    Null,
    B(bool),
    N(i64),
    S(String),
    A(Vec<J>),
    O(Vec<(String, J)>),
}

impl J {
    pub fn s(s: &str) -> J {
        J::S(s.to_string())
    }
    pub fn b(b: bool) -> J {
        J::B(b)
    }
    pub fn n(n: i64) -> J {
        J::N(n)
    }
    pub fn arr(v: Vec<J>) -> J {
        J::A(v)
    }
    pub fn obj(v: Vec<(&str, J)>) -> J {
        J::O(v.into_iter().map(|(k, v)| (k.to_string(), v)).collect())
    }

    pub fn write(&self, out: &mut String) {
        match self {
            J::Null => out.push_str("null"),
            J::B(b) => out.push_str(if *b { "true" } else { "false" }),
            J::N(n) => out.push_str(&n.to_string()),
            J::S(s) => esc(s, out),
            J::A(v) => {
                out.push('[');
                for (i, x) in v.iter().enumerate() {
                    if i > 0 {
                        out.push(',');
                    }
                    x.write(out);
                }
                out.push(']');
            }
            J::O(v) => {
                out.push('{');
                for (i, (k, x)) in v.iter().enumerate() {
                    if i > 0 {
                        out.push(',');
                    }
                    esc(k, out);
                    out.push(':');
                    x.write(out);
                }
                out.push('}');
            }
        }
    }
}

fn esc(s: &str, out: &mut String) {
    out.push('"');
    for c in s.chars() {
        match c {
            '"' => out.push_str("\\\""),
            '\\' => out.push_str("\\\\"),
            '\n' => out.push_str("\\n"),
            '\r' => out.push_str("\\r"),
            '\t' => out.push_str("\\t"),
            c if (c as u32) < 0x20 => out.push_str(&format!("\\u{:04x}", c as u32)),
            c => out.push(c),
        }
    }
    out.push('"');
}
